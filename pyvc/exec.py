"""Code-mode evaluation and statement execution (see engine.py)."""
import ast
import copy

import z3

from . import smt
from .smt import I, R, B, Str, Cls
from .values import (SV, VInt, VReal, VBool, VStr, VNone, NONE, VTuple, VRef, VOpt, VCls, VExc, VFn, VVal,
                     VMod, VRange, VSlice, VInner, VDictVal, Arr, Dict, Obj, State, EngineError, fresh, SORTS)
from .engine import Engine, Result, Contract, to_int, to_real, is_num, mk


def assigned_names(nodes):
    """names (re)bound by a list of statements (not descending into nested defs)"""
    out = set()

    def tgt(t):
        if isinstance(t, ast.Name):
            out.add(t.id)
        elif isinstance(t, (ast.Tuple, ast.List)):
            for x in t.elts:
                tgt(x)
        elif isinstance(t, ast.Starred):
            tgt(t.value)

    def walk(n):
        if isinstance(n, (ast.FunctionDef, ast.Lambda, ast.ClassDef)):
            if isinstance(n, ast.FunctionDef):
                out.add(n.name)
            return
        if isinstance(n, ast.Assign):
            for t in n.targets:
                tgt(t)
        elif isinstance(n, (ast.AugAssign, ast.AnnAssign)):
            tgt(n.target)
        elif isinstance(n, (ast.For,)):
            tgt(n.target)
        elif isinstance(n, ast.With):
            for it in n.items:
                if it.optional_vars is not None:
                    tgt(it.optional_vars)
        elif isinstance(n, ast.ExceptHandler) and n.name:
            out.add(n.name)
        elif isinstance(n, ast.NamedExpr):
            tgt(n.target)
        for c in ast.iter_child_nodes(n):
            walk(c)
    for n in nodes:
        walk(n)
    return out


def store_bases(nodes):
    """expressions whose referent is mutated in place by the statements:
    subscript / attribute stores, del, and mutating method calls"""
    out = []

    def walk(n):
        if isinstance(n, (ast.FunctionDef, ast.Lambda, ast.ClassDef)):
            return
        targets = []
        if isinstance(n, ast.Assign):
            targets = n.targets
        elif isinstance(n, (ast.AugAssign, ast.AnnAssign)):
            targets = [n.target]
        elif isinstance(n, ast.Delete):
            targets = n.targets
        for t in targets:
            for x in ([t] if not isinstance(t, (ast.Tuple, ast.List)) else t.elts):
                if isinstance(x, (ast.Subscript, ast.Attribute)):
                    out.append(('store', x))
        if isinstance(n, ast.Call):
            out.append(('call', n))
        for c in ast.iter_child_nodes(n):
            walk(c)
    for n in nodes:
        walk(n)
    return out


# methods of builtin containers / arrays known NOT to mutate their receiver; a call of any other method on a list,
# dict, set or array inside a loop body counts as a write to that object (it is havoced by the loop cut)
PURE_METHODS = {'get', 'keys', 'items', 'values', 'copy', 'index', 'count', 'lower', 'upper', 'strip', 'split', 'join',
                'startswith', 'endswith', 'sum', 'min', 'max', 'astype', 'tolist', 'ravel', 'reshape', 'view', 'any',
                'all', 'issubset', 'getformat', 'tocsr', 'tocsc', 'count_nonzero', 'format', 'replace', 'encode',
                'decode', 'isoformat'}


class ArityError(Exception):
    pass


class Exec(Engine):

    # ------------------------------------------------------------------
    # helpers
    # ------------------------------------------------------------------
    def feasible(self, st, full=False):
        if smt.quick_unsat(st.pc + self.light_axioms(), full=full):
            self.stats['pruned'] += 1
            return False
        return True

    def light_axioms(self):
        return smt.background()

    def fork(self, st, cond):
        """[(state assuming cond), (state assuming not cond)] minus infeasible"""
        cond = z3.simplify(cond)
        if z3.is_true(cond):
            return [st], []
        if z3.is_false(cond):
            return [], [st]
        # already decided on this path?  (cheap syntactic look-up before asking the solver)
        neg = z3.simplify(z3.Not(cond))
        for h in reversed(st.pc[-40:]):
            if h.eq(cond):
                return [st], []
            if h.eq(neg):
                return [], [st]
        a, b = st.copy(), st.copy()
        a.assume(cond)
        b.assume(z3.Not(cond))
        return ([a] if self.feasible(a) else []), ([b] if self.feasible(b) else [])

    def exc(self, st, clsname, *args, node=None):
        return Result(st, exc=VExc(VCls(clsname), list(args)), flow='raise')

    def ev_list(self, exprs, st):
        """evaluate expressions left to right; returns [(st, [vals])] and exceptional results"""
        acc = [(st, [])]
        excs = []
        for e in exprs:
            nxt = []
            for s, vals in acc:
                for r in self.ev(e, s):
                    if r.exc is not None:
                        excs.append(r)
                    else:
                        nxt.append((r.st, vals + [r.val]))
            acc = nxt
        return acc, excs

    def norm_opt(self, st, v):
        """case split an optional value into None / the value"""
        if v.kind != 'opt':
            return [(st, v)]
        out = []
        yes, no = self.fork(st, v.is_none)
        for s in yes:
            out.append((s, NONE))
        for s in no:
            out.append((s, v.val))
        return out

    # ------------------------------------------------------------------
    # expressions (code mode)
    # ------------------------------------------------------------------
    def ev(self, e, st):
        m = getattr(self, 'ev_' + type(e).__name__, None)
        if m is None:
            raise EngineError('%s:%d: expression outside the subset: %s' % (self.rel, getattr(e, 'lineno', 0), type(e).__name__))
        return m(e, st)

    def ev_Constant(self, e, st):
        return [Result(st, self.const(e.value))]

    def ev_Name(self, e, st):
        n = e.id
        if n in st.env:
            v = st.env[n]
            if v.kind == 'opt':
                # an optional whose case was decided by an earlier test on this path reads as that case
                for t in reversed(st.pc):
                    if t.eq(v.is_none):
                        return [Result(st, NONE)]
                    if z3.is_not(t) and t.arg(0).eq(v.is_none):
                        return [Result(st, v.val)]
            return [Result(st, v)]
        if n in st.globals:
            return [Result(st, st.globals[n])]
        v = self.world.global_name(self, st, n) if self.world else None
        if v is not None:
            return [Result(st, v)]
        raise EngineError('%s:%d: unknown name %r' % (self.rel, e.lineno, n))

    def ev_Tuple(self, e, st):
        acc, excs = self.ev_list(e.elts, st)
        return [Result(s, VTuple(vals, isinstance(e, ast.List))) for s, vals in acc] + excs

    def ev_List(self, e, st):
        if not e.elts:
            return [Result(st, st.alloc(Arr('val', z3.K(I, self.world.val_none()), z3.IntVal(0), 'list')))] \
                if False else [Result(st, VTuple([], True))]
        return self.ev_Tuple(e, st)

    def ev_JoinedStr(self, e, st):
        """f-string: opaque, with its literal prefix kept"""
        prefix = ''
        for v in e.values:
            if isinstance(v, ast.Constant) and isinstance(v.value, str):
                prefix += v.value
            else:
                break
        exprs = [v.value for v in e.values if isinstance(v, ast.FormattedValue)]
        acc, excs = self.ev_list(exprs, st)
        out = list(excs)
        for s, _ in acc:
            out.append(Result(s, VStr(smt.concat_s(smt.str_lit(prefix), fresh('fstr', Str))) if prefix
                              else VStr(fresh('fstr', Str))))
        return out

    def ev_Slice(self, e, st):
        if e.lower is None and e.upper is None and e.step is None:
            return [Result(st, VSlice(None, None))]
        raise EngineError('%s: slice with bounds inside a tuple index' % self.rel)

    def ev_Set(self, e, st):
        acc, excs = self.ev_list(e.elts, st)
        return [Result(s, VTuple(vals)) for s, vals in acc] + excs

    def ev_Lambda(self, e, st):
        return [Result(st, VFn('closure', node=e, env=dict(st.env), name='<lambda>@L%d' % e.lineno))]

    def ev_Attribute(self, e, st):
        out = []
        for r in self.ev(e.value, st):
            if r.exc is not None:
                out.append(r)
                continue
            for s, base in self.norm_opt(r.st, r.val):
                if base.kind == 'none':
                    out.append(self.exc(s, 'AttributeError'))
                    continue
                out.extend(self.getattr_code(s, base, e.attr, e))
        return out

    def getattr_code(self, st, base, attr, node):
        if base.kind == 'ref':
            n = st.node(base)
            if isinstance(n, Obj):
                hook = self.world.obj_getattr_code(self, st, base, n, attr, node) if self.world else None
                if hook is not None:
                    return hook
        return [Result(st, self.getattr_pure(st, base, attr))]

    def ev_BinOp(self, e, st):
        acc, excs = self.ev_list([e.left, e.right], st)
        out = list(excs)
        for s, (a, b) in acc:
            if isinstance(e.op, (ast.Div, ast.FloorDiv, ast.Mod)) and is_num(b) and is_num(a):
                self.oblige(s, 'div-zero', to_real(b) != 0, e.lineno)
            out.append(Result(s, self.binop(e.op, a, b, s)))
        return out

    def ev_UnaryOp(self, e, st):
        out = []
        for r in self.ev(e.operand, st):
            if r.exc is not None:
                out.append(r)
            elif isinstance(e.op, ast.Not):
                for s, v in self.norm_opt(r.st, r.val):
                    out.append(Result(s, VBool(z3.Not(self.truth(s, v)))))
            elif isinstance(e.op, ast.USub):
                v = r.val
                out.append(Result(r.st, VReal(-v.term) if v.kind == 'real' else VInt(-to_int(v))))
            else:
                raise EngineError('unary operator %s' % type(e.op).__name__)
        return out

    def ev_BoolOp(self, e, st):
        # short-circuit: a and b -> b if a else a ; returns the operand values
        is_and = isinstance(e.op, ast.And)
        results = []
        pending = [st]
        for k, operand in enumerate(e.values):
            last = k == len(e.values) - 1
            nxt = []
            for s in pending:
                for r in self.ev(operand, s):
                    if r.exc is not None:
                        results.append(r)
                        continue
                    if last:
                        results.append(r)
                        continue
                    for s2, v in self.norm_opt(r.st, r.val):
                        t = self.truth(s2, v)
                        yes, no = self.fork(s2, t)
                        stop, go = (no, yes) if is_and else (yes, no)
                        for s3 in stop:
                            results.append(Result(s3, v if v.kind != 'bool' else VBool(not is_and)))
                        nxt.extend(go)
            pending = nxt
        return results

    def ev_Compare(self, e, st):
        acc, excs = self.ev_list([e.left] + list(e.comparators), st)
        out = list(excs)
        for s, vals in acc:
            if len(e.ops) == 1 and isinstance(e.ops[0], (ast.Eq, ast.NotEq)):
                a, b = vals
                if b.kind == 'ref' and isinstance(s.node(b), Arr) and s.node(b).flavour == 'set':
                    a, b = b, a
                if a.kind == 'ref' and isinstance(s.node(a), Arr) and s.node(a).flavour == 'set' and b.kind == 'tuple' \
                        and isinstance(e.comparators[0] if a is vals[0] else e.left, ast.Set):
                    # {values of a sequence} == {c1, ..}: every value is one of the ci and every ci occurs
                    n = s.node(a)
                    q = fresh('q', I)
                    consts = [self.unwrap(x, n.elem) for x in b.items]
                    t = z3.And(z3.ForAll([q], z3.Implies(z3.And(0 <= q, q < n.n), z3.Or([n.a[q] == c for c in consts])),
                                         patterns=[n.a[q]]),
                               *[z3.Exists([q], z3.And(0 <= q, q < n.n, n.a[q] == c), patterns=[n.a[q]]) for c in consts])
                    out.append(Result(s, VBool(z3.Not(t) if isinstance(e.ops[0], ast.NotEq) else t)))
                    continue
            if len(e.ops) == 1 and hasattr(self.world, 'compare_objects'):
                r = self.world.compare_objects(self, s, e.ops[0], vals[0], vals[1])
                if r is not None:
                    out.extend(r if isinstance(r, list) else [r])
                    continue
            ts = []
            for k, op in enumerate(e.ops):
                ts.append(self.compare(s, op, vals[k], vals[k + 1]))
            out.append(Result(s, VBool(z3.And(ts) if len(ts) > 1 else ts[0])))
        return out

    def ev_IfExp(self, e, st):
        out = []
        for r in self.ev(e.test, st):
            if r.exc is not None:
                out.append(r)
                continue
            for s, v in self.norm_opt(r.st, r.val):
                yes, no = self.fork(s, self.truth(s, v))
                for s2 in yes:
                    out.extend(self.ev(e.body, s2))
                for s2 in no:
                    out.extend(self.ev(e.orelse, s2))
        return out

    def ev_Subscript(self, e, st):
        out = []
        if isinstance(e.slice, ast.Slice):
            parts = [e.value] + [x for x in (e.slice.lower, e.slice.upper) if x is not None]
            if e.slice.step is not None:
                step = e.slice.step
                if not (isinstance(step, ast.UnaryOp) and isinstance(step.op, ast.USub)
                        and isinstance(step.operand, ast.Constant) and step.operand.value == 1):
                    raise EngineError('slice step other than -1')
            acc, excs = self.ev_list(parts, st)
            out.extend(excs)
            for s, vals in acc:
                base = vals[0]
                k = 1
                lo = hi = None
                if e.slice.lower is not None:
                    lo = vals[k]
                    k += 1
                if e.slice.upper is not None:
                    hi = vals[k]
                out.extend(self.slice_read(s, base, lo, hi, e, reverse=e.slice.step is not None))
            return out
        acc, excs = self.ev_list([e.value, e.slice], st)
        out.extend(excs)
        for s, (base, idx) in acc:
            for s2, b2 in self.norm_opt(s, base):
                out.extend(self.index_read(s2, b2, idx, e))
        return out

    def mask_read(self, st, n, m, line):
        """a[boolean array]: the elements at the true positions, in order (numpy refuses a mask of another length).
        Modelled by a strictly increasing position map `sel` onto the true positions and its inverse `inv`."""
        self.world.used.add('mask-index')
        out = []
        ok, bad = self.fork(st, m.n == n.n)
        for s in bad:
            out.append(self.exc(s, 'IndexError'))
        for s in ok:
            s = s.copy()
            res = fresh('masked', n.a.sort())
            cnt = fresh('nsel', I)
            sel = fresh('sel', z3.ArraySort(I, I))
            inv = fresh('selinv', z3.ArraySort(I, I))
            p, q, k = fresh('p', I), fresh('q', I), fresh('k', I)
            s.assume(cnt >= 0, cnt <= n.n,
                     z3.ForAll([p], z3.Implies(z3.And(0 <= p, p < cnt),
                                               z3.And(0 <= sel[p], sel[p] < n.n, m.a[sel[p]], res[p] == n.a[sel[p]],
                                                      inv[sel[p]] == p)), patterns=[res[p]]),
                     z3.ForAll([k], z3.Implies(z3.And(0 <= k, k < n.n, m.a[k]),
                                               z3.And(0 <= inv[k], inv[k] < cnt, sel[inv[k]] == k)), patterns=[m.a[k]]),
                     z3.ForAll([p, q], z3.Implies(z3.And(0 <= p, p < q, q < cnt), sel[p] < sel[q]),
                               patterns=[z3.MultiPattern(sel[p], sel[q])]))
            out.append(Result(s, s.alloc(Arr(n.elem, res, cnt, n.flavour))))
        return out

    def index_read(self, st, base, idx, node):
        line = getattr(node, 'lineno', 0)
        if hasattr(base, 'sv_index'):
            return base.sv_index(self, st, idx, node)
        if hasattr(idx, 'sv_as_key') and base.kind == 'ref' and isinstance(st.node(base), Dict):
            return idx.sv_as_key(self, st, base, node)
        if base.kind == 'tuple':
            t = z3.simplify(to_int(idx)) if idx.kind in ('int', 'bool') else None
            if t is None:
                raise EngineError('%s:%d: tuple index of kind %s' % (self.rel, line, idx.kind))
            if z3.is_int_value(t):
                k = t.as_long()
                if -len(base.items) <= k < len(base.items):
                    return [Result(st, base.items[k])]
                return [self.exc(st, 'IndexError')]
            self.oblige(st, 'index-bounds', z3.And(t >= 0, t < len(base.items)), line)
            return [Result(st, self.index_pure(st, base, idx))]
        if base.kind == 'ref':
            n = st.node(base)
            if isinstance(n, Arr):
                if idx.kind == 'tuple' or idx.kind == 'slice':
                    raise EngineError('%s:%d: multi-dimensional index' % (self.rel, line))
                if idx.kind == 'ref' and isinstance(st.node(idx), Arr) and st.node(idx).elem == 'int':
                    # a[int array]: gather
                    f = st.node(idx)
                    k = fresh('k', I)
                    self.oblige(st, 'index-bounds', z3.ForAll([k], z3.Implies(z3.And(0 <= k, k < f.n),
                                                                              z3.And(0 <= f.a[k], f.a[k] < n.n))), line)
                    st = st.copy()
                    out = fresh('gather', n.a.sort())
                    st.assume(z3.ForAll([k], out[k] == n.a[f.a[k]], patterns=[out[k]]))
                    return [Result(st, st.alloc(Arr(n.elem, out, f.n, n.flavour)))]
                if idx.kind == 'ref' and isinstance(st.node(idx), Arr) and st.node(idx).elem == 'bool':
                    return self.mask_read(st, n, st.node(idx), line)
                t = to_int(idx)
                self.oblige(st, 'index-bounds', z3.And(t >= 0, t < n.n), line)
                return [Result(st, self.wrap(n.elem, n.a[t]))]
            if isinstance(n, Dict) and n.seq is not None:
                t = to_int(idx)
                self.oblige(st, 'index-bounds', z3.And(t >= 0, t < n.seq), line)
                if n.nones is not None:
                    return [Result(st, VOpt(n.nones[t], VInner(base, t)))]
                return [Result(st, VInner(base, t))]
            if isinstance(n, Dict):
                kt = self.unwrap(idx, n.kkind)
                mode = self.keyerror_mode(node)
                if mode == 'oblige':
                    self.oblige(st, 'key-present', n.dom[kt], line)
                    return [Result(st, self.index_pure(st, base, idx))]
                out = []
                yes, no = self.fork(st, n.dom[kt])
                for s in yes:
                    out.append(Result(s, self.index_pure(s, base, idx)))
                for s in no:
                    out.append(self.exc(s, 'KeyError', idx))
                return out
            if isinstance(n, Obj):
                r = self.world.obj_index(self, st, base, n, idx, node)
                if r is not None:
                    return r
        if base.kind == 'inner':
            n = st.node(base.ref)
            k2 = self.unwrap(idx, n.inner[0])
            out = []
            yes, no = self.fork(st, n.idom[base.key][k2])
            for s in yes:
                out.append(Result(s, self.index_pure(s, base, idx)))
            for s in no:
                out.append(self.exc(s, 'KeyError', idx))
            return out
        if base.kind == 'dictval':
            kt = self.unwrap(idx, base.kkind)
            out = []
            yes, no = self.fork(st, base.dom[kt])
            for s in yes:
                out.append(Result(s, self.wrap(base.vkind, base.val[kt])))
            for s in no:
                out.append(self.exc(s, 'KeyError', idx))
            return out
        raise EngineError('%s:%d: cannot index a value of kind %s' % (self.rel, line, base.kind))

    def keyerror_mode(self, node):
        """'fork' : a missing key raises KeyError (python semantics, default)"""
        return 'fork'

    def slice_bounds(self, st, n, lo, hi, line):
        """python slice clamping for 0 <= lo, hi (negative bounds are outside the
        subset: obligation lo >= 0, hi >= 0)"""
        lo_t = to_int(lo) if lo is not None and lo.kind != 'none' else z3.IntVal(0)
        hi_t = to_int(hi) if hi is not None and hi.kind != 'none' else n.n
        self.oblige(st, 'slice-nonneg', z3.And(lo_t >= 0, hi_t >= 0), line)
        lo_c = z3.If(lo_t > n.n, n.n, lo_t)
        hi_c = z3.If(hi_t > n.n, n.n, hi_t)
        ln = z3.If(hi_c > lo_c, hi_c - lo_c, z3.IntVal(0))
        return lo_c, hi_c, ln

    def slice_read(self, st, base, lo, hi, node, reverse=False):
        line = node.lineno
        if hasattr(base, 'sv_slice'):
            return base.sv_slice(self, st, lo, hi, node, reverse)      # extension values (e.g. an HDF5 dataset: ds[:])
        if base.kind == 'tuple':
            if reverse and lo is None and hi is None:
                return [Result(st, VTuple(base.items[::-1], base.islist))]
            if lo is None and hi is None:
                return [Result(st, VTuple(list(base.items), base.islist))]
            raise EngineError('%s:%d: slice of a tuple with bounds' % (self.rel, line))
        if base.kind == 'ref' and isinstance(st.node(base), Arr):
            n = st.node(base)
            if reverse:
                if lo is not None or hi is not None:
                    raise EngineError('reverse slice with bounds')
                k = fresh('k', I)
                a2 = fresh('rev', z3.ArraySort(I, self.sort_of_kind(n.elem)))
                st = st.copy()
                st.assume(z3.ForAll([k], z3.Implies(z3.And(0 <= k, k < n.n), a2[k] == n.a[n.n - 1 - k])))
                return [Result(st, st.alloc(Arr(n.elem, a2, n.n, n.flavour)))]
            if lo is None and hi is None:
                # x[:] : a copy of the whole sequence - a new node with the same contents term (no quantified axiom)
                st = st.copy()
                ref = st.alloc(Arr(n.elem, n.a, n.n, n.flavour))
                st.node(ref).slice_of = (n.a, z3.IntVal(0), n.n)
                return [Result(st, ref)]
            lo_c, hi_c, ln = self.slice_bounds(st, n, lo, hi, line)
            # numpy basic slices are views; modelled as a fresh array holding a copy
            # (sound for the verified functions: they never write through both names
            # afterwards - checked syntactically by the world, see World.view_alias_check)
            k = fresh('k', I)
            a2 = fresh('slice', z3.ArraySort(I, self.sort_of_kind(n.elem)))
            st = st.copy()
            st.assume(z3.ForAll([k], z3.Implies(z3.And(0 <= k, k < ln), a2[k] == n.a[lo_c + k]),
                                patterns=[a2[k]]))
            ref = st.alloc(Arr(n.elem, a2, ln, n.flavour))
            st.node(ref).slice_of = (n.a, lo_c, ln)       # provenance (used by the model of ndarray.sum)
            return [Result(st, ref)]
        raise EngineError('%s:%d: slice of %s' % (self.rel, line, base.kind))

    def ev_Dict(self, e, st):
        acc, excs = self.ev_list([k for k in e.keys] + list(e.values), st)
        out = list(excs)
        nk = len(e.keys)
        for s, vals in acc:
            keys, values = vals[:nk], vals[nk:]
            out.append(Result(s, self.dict_literal(s, keys, values)))
        return out

    def dict_literal(self, st, keys, values):
        if not keys:
            raise EngineError('empty dict literal needs a declared type')
        kk = keys[0].kind
        vk = values[0].kind
        if any(v.kind != vk for v in values):
            vk = 'val'
        if vk in ('fn', 'opt'):
            vk = 'fn'
        ks, vs = self.sort_of_kind(kk), self.sort_of_kind(vk)
        dom = z3.K(ks, z3.BoolVal(False))
        val = fresh('dictlit', z3.ArraySort(ks, vs))
        for k, v in zip(keys, values):
            dom = z3.Store(dom, self.unwrap(k, kk), z3.BoolVal(True))
            val = z3.Store(val, self.unwrap(k, kk), self.unwrap(v, vk))
        return st.alloc(Dict(kk, vk, dom, val))

    def ev_ListComp(self, e, st):
        return self.world.comprehension(self, st, e)

    ev_GeneratorExp = ev_ListComp

    def ev_SetComp(self, e, st):
        # a set comprehension: the list of its values, marked as a set (membership and equality with a set display only)
        out = []
        for r in self.world.comprehension(self, st, e):
            if r.exc is None and r.val.kind == 'ref' and isinstance(r.st.node(r.val), Arr):
                n = r.st.node(r.val)
                r.st.setnode(r.val, Arr(n.elem, n.a, n.n, 'set'))
            out.append(r)
        return out

    def ev_Call(self, e, st):
        out = []
        for r in self.ev(e.func, st):
            if r.exc is not None:
                out.append(r)
                continue
            fv = r.val
            argexprs = []
            star = None
            for a in e.args:
                if isinstance(a, ast.Starred):
                    star = a.value
                else:
                    argexprs.append(a)
            kwnames = [k.arg for k in e.keywords]
            acc, excs = self.ev_list(argexprs + [k.value for k in e.keywords] + ([star] if star is not None else []), r.st)
            out.extend(excs)
            # an optional value handed to a callee is decided first (None, or the value itself)
            acc2 = []
            for s, vals in acc:
                alts = [(s, [])]
                for v in vals:
                    nxt = []
                    for s1, done in alts:
                        if v is not None and getattr(v, 'kind', None) == 'opt':
                            nxt.extend((s2, done + [v2]) for s2, v2 in self.norm_opt(s1, v))
                        else:
                            nxt.append((s1, done + [v]))
                    alts = nxt
                acc2.extend(alts)
            acc = acc2
            for s, vals in acc:
                na = len(argexprs)
                args = vals[:na]
                kwvals = vals[na:na + len(kwnames)]
                kwargs = {}
                dstar = None
                for kn, kv in zip(kwnames, kwvals):
                    if kn is None:
                        dstar = kv
                    else:
                        kwargs[kn] = kv
                starv = vals[-1] if star is not None else None
                out.extend(self.call(s, fv, args, kwargs, e, starv=starv, dstar=dstar))
        return out

    # ------------------------------------------------------------------
    # calls
    # ------------------------------------------------------------------
    def call(self, st, fv, args, kwargs, node, starv=None, dstar=None):
        line = getattr(node, 'lineno', 0)
        if fv.kind == 'opt':
            out = []
            for s, v in self.norm_opt(st, fv):
                if v.kind == 'none':
                    out.append(self.exc(s, 'TypeError'))
                else:
                    out.extend(self.call(s, v, args, kwargs, node, starv, dstar))
            return out
        if fv.kind == 'cls':
            return self.world.construct(self, st, fv, args, kwargs, node)
        if fv.kind != 'fn':
            raise EngineError('%s:%d: call of a value of kind %s' % (self.rel, line, fv.kind))
        fk = fv.fk
        if fk == 'closure':
            return self.call_inline(st, fv.node, fv.env, args, kwargs, node, starv=starv, dstar=dstar)
        if fk == 'def':
            # module-level function / method of a repo class: contract or inline
            return self.call_def(st, fv, args, kwargs, node, starv=starv, dstar=dstar)
        if fk == 'builtin':
            return self.world.call_builtin(self, st, fv.name, args, kwargs, node, starv=starv, dstar=dstar)
        if fk == 'method':
            return self.world.call_method(self, st, fv.recv, fv.name, args, kwargs, node, starv=starv, dstar=dstar)
        if fk == 'sym':
            return self.world.call_symbolic_fn(self, st, fv.term, args, kwargs, node)
        if fk == 'callback':
            return self.world.call_callback(self, st, fv, args, kwargs, node)
        raise EngineError('%s:%d: call of function kind %s' % (self.rel, line, fk))

    def bind_params(self, fnode, args, kwargs, st, starv=None, dstar=None, self_val=None):
        """python parameter binding for def/lambda nodes; defaults must be constants / names"""
        a = fnode.args
        env = {}
        params = [p.arg for p in a.posonlyargs + a.args]
        args = list(args)
        if self_val is not None:
            args = [self_val] + args
        if starv is not None:
            if starv.kind == 'tuple':
                args = args + list(starv.items)
            else:
                if a.vararg is None or len(args) != len(params):
                    raise EngineError('*args of symbolic length passed to a function without matching *param')
                env[a.vararg.arg] = starv
        n_pos = min(len(args), len(params))
        for p, v in zip(params, args):
            env[p] = v
        rest = args[len(params):]
        if a.vararg is not None and a.vararg.arg not in env:
            env[a.vararg.arg] = VTuple(rest)
        elif rest:
            raise ArityError('too many positional arguments')
        defaults = a.defaults
        dparams = params[len(params) - len(defaults):] if defaults else []
        kwargs = dict(kwargs)
        for p in params[n_pos:]:
            if p in kwargs:
                env[p] = kwargs.pop(p)
            elif p in dparams:
                d = defaults[dparams.index(p)]
                env[p] = self.default_value(d, st)
            else:
                raise ArityError('missing argument %r' % p)
        for p, d in zip(a.kwonlyargs, a.kw_defaults):
            if p.arg in kwargs:
                env[p.arg] = kwargs.pop(p.arg)
            elif d is not None:
                env[p.arg] = self.default_value(d, st)
            else:
                raise EngineError('missing keyword-only argument %r' % p.arg)
        if a.kwarg is not None:
            if dstar is not None and not kwargs:
                env[a.kwarg.arg] = dstar
            elif dstar is None:
                env[a.kwarg.arg] = self.world.kwargs_value(self, st, kwargs)
            else:
                raise EngineError('mix of explicit keywords and ** into **kwargs')
        elif kwargs or dstar is not None:
            if dstar is not None and not kwargs:
                # f(**d) into named parameters: outside the subset unless d is a literal
                raise EngineError('** into named parameters')
            raise EngineError('unexpected keyword arguments %s' % sorted(kwargs))
        return env

    def default_value(self, d, st):
        if isinstance(d, ast.Constant):
            return self.const(d.value)
        if isinstance(d, ast.Name):
            rs = self.ev(d, st)
            return rs[0].val
        raise EngineError('non-constant default value')

    def call_inline(self, st, fnode, cenv, args, kwargs, node, starv=None, dstar=None, self_val=None, qual=None):
        env = dict(cenv)
        try:
            env.update(self.bind_params(fnode, args, kwargs, st, starv, dstar, self_val))
        except ArityError:
            return [self.exc(st, 'TypeError')]
        caller_env = st.env
        s = st.copy()
        s.env = env
        out = []
        if isinstance(fnode, ast.Lambda):
            for r in self.ev(fnode.body, s):
                r.st.env = dict(caller_env)
                out.append(r)
            return out
        self.inline_depth = getattr(self, 'inline_depth', 0) + 1
        if self.inline_depth > 12:
            raise EngineError('inlining too deep (recursion?)')
        try:
            for r in self.exec_block(fnode.body, s):
                r.st.env = dict(caller_env)
                if r.flow == 'return':
                    out.append(Result(r.st, r.val if r.val is not None else NONE))
                elif r.flow == 'normal':
                    out.append(Result(r.st, NONE))
                elif r.flow == 'raise':
                    out.append(r)
                else:
                    raise EngineError('break/continue escaping a function')
        finally:
            self.inline_depth -= 1
        return out

    def call_def(self, st, fv, args, kwargs, node, starv=None, dstar=None):
        key = '%s::%s' % (fv.rel, fv.qualname)
        c = self.registry.get(key)
        self_val = getattr(fv, 'self_val', None)
        if c is not None and not c.inline and not c.extra.get('inline_at_calls'):
            return self.call_contract(st, c, fv.node, args, kwargs, node, starv, dstar, self_val)
        if c is not None and (c.inline or c.extra.get('inline_at_calls')) or self.world.may_inline(fv):
            self.inlined.add(key)
            return self.call_inline(st, fv.node, self.world.def_env(self, st, fv), args, kwargs, node,
                                    starv, dstar, self_val, qual=fv.qualname)
        body_nodes = list(ast.walk(ast.Module(body=list(fv.node.body), type_ignores=[]))) if hasattr(fv.node, 'body') \
            and isinstance(fv.node.body, list) else None
        if body_nodes is not None and not any(isinstance(x, (ast.For, ast.While, ast.Yield, ast.YieldFrom)) for x in body_nodes):
            # a helper without contract (typically introduced by the change under test): a loop-free body is simply
            # executed in place (its text becomes part of the caller's hash); anything else needs a contract
            self.inlined.add(key)
            self.notes.append('%s:%d: %s has no contract; loop-free, executed in place'
                              % (self.rel, getattr(node, 'lineno', 0), key))
            return self.call_inline(st, fv.node, self.world.def_env(self, st, fv), args, kwargs, node,
                                    starv, dstar, self_val, qual=fv.qualname)
        raise EngineError('%s:%d: call of %s which has neither a contract nor an inline declaration'
                          % (self.rel, getattr(node, 'lineno', 0), key))

    def call_contract(self, st, c, fnode, args, kwargs, node, starv=None, dstar=None, self_val=None):
        line = getattr(node, 'lineno', 0)
        try:
            env = self.bind_params(fnode, args, kwargs, st, starv, dstar, self_val)
        except ArityError:
            return [self.exc(st, 'TypeError')]      # python: wrong number of arguments
        self.used_contracts.add(c.key)
        # ghost record of calls made to contracted functions (for `internal` postconditions of the caller)
        st = st.copy()
        st.marks = dict(st.marks)
        st.marks['ccalls'] = list(st.marks.get('ccalls', [])) + [(c.qualname, dict(env))]
        pre = st.copy()
        caller_env = st.env
        pre.env = env
        self.declare_ghosts(c, pre)
        for k, req in enumerate(c.requires):
            self.oblige(pre, 'call-pre/%s.%d' % (c.qualname, k), self.sbool(req, pre), line)
        out = []
        # normal return; `returns` may list alternatives separated by '|': 'Alias[expr]' (the result is that
        # existing object) or a type (a fresh value)
        alts = [a.strip() for a in c.returns.split('|')] if c.returns else [None]
        for alt in alts:
            post0 = pre.copy()
            post0.old = pre.snapshot()
            for post in self.havoc_modifies(post0, c.modifies):
                if alt is None:
                    if any('result' in e for e in c.ensures):
                        raise EngineError('%s: the contract speaks about `result` but declares no `returns` type' % c.key)
                    post.env['result'] = NONE
                elif alt.startswith('Alias[') and alt.endswith(']'):
                    post.env['result'] = self.sev(alt[6:-1], post)
                else:
                    post.env['result'] = self.make_input(post, 'ret_' + c.qualname.replace('.', '_'), alt)
                for path, expr in (c.extra.get('installs') or {}).items():
                    pe = ast.parse(path, mode='eval').body
                    base = self.sev(pe.value, post)
                    post.setnode(base, post.node(base).replace(**{pe.attr: self.sev(expr, post)}))
                for ens in c.ensures:
                    post.assume(self.sbool(ens, post))
                if self.feasible(post):
                    res_val = post.env.get('result', NONE)
                    post.env = dict(caller_env)
                    post.old = st.old
                    out.append(Result(post, res_val))
        for exc_name, conds in c.raises.items():
            ex0 = pre.copy()
            ex0.old = pre.snapshot()
            for ex in self.havoc_modifies(ex0, c.modifies):
                for cnd in conds:
                    ex.assume(self.sbool(cnd, ex))
                if self.feasible(ex):
                    ex.env = dict(caller_env)
                    ex.old = st.old
                    out.append(self.exc(ex, exc_name))
        return out

    def havoc_modifies(self, st, modifies):
        """havoc the callee's frame in `st`.  Conditional entries (cond, path) are havoced only under cond: the
        state is refined by a case split, so the caller keeps what the callee provably leaves alone.
        Returns the list of resulting states."""
        states = [st]
        # one case split per distinct condition
        groups = {}
        for m in modifies:
            if isinstance(m, tuple):
                groups.setdefault(m[0], []).append(m[1])
            else:
                for s in states:
                    self.havoc_path(s, m)
        for cond, paths in groups.items():
            nxt = []
            for s in states:
                yes, no = self.fork(s, self.sbool(cond, s))
                for y in yes:
                    for path in paths:
                        self.havoc_path(y, path)
                    nxt.append(y)
                nxt.extend(no)
            states = nxt
        return states

    def havoc_path(self, st, path):
        """'x.f[*]' contents of array/dict; 'x.f' rebinding of a field (fresh object
        of the same shape); 'x[*]' contents of the node x refers to; 'x.*' every field of object x"""
        if path.endswith('.*'):
            ref = self.sev(path[:-2], st)
            self.havoc_node(st, ref)
            return
        contents = path.endswith('[*]')
        p = path[:-3] if contents else path
        e = ast.parse(p, mode='eval').body
        if contents:
            ref = self.sev(e, st)
            if ref.kind == 'opt':
                ref = ref.val
            if ref.kind == 'none':
                return
            if ref.kind != 'ref':
                raise EngineError('modifies: %s is not a reference' % path)
            self.havoc_node(st, ref)
            return
        if isinstance(e, ast.Attribute):
            base = self.sev(e.value, st)
            n = st.node(base)
            cur = n.fields.get(e.attr)
            st.setnode(base, n.replace(**{e.attr: self.fresh_like(st, cur, e.attr)}))
            return
        raise EngineError('modifies: unsupported path %r' % path)

    def havoc_node(self, st, ref):
        n = st.node(ref)
        if isinstance(n, Arr):
            if n.flavour == 'list':
                ln = fresh('hvlen', I)
                st.assume(ln >= 0)
                st.setnode(ref, n.replace(a=fresh('hv', n.a.sort()), n=ln))
            else:
                st.setnode(ref, n.replace(a=fresh('hv', n.a.sort())))
        elif isinstance(n, Dict):
            kw = dict(dom=fresh('hvdom', n.dom.sort()), val=fresh('hvval', n.val.sort()), keys=None, nkeys=None, pos=None)
            if n.seq is not None:
                kw['dom'] = n.dom          # a sequence keeps its positions; only the entries change
            if n.inner:
                kw['idom'] = fresh('hvidom', n.idom.sort())
            st.setnode(ref, n.replace(**kw))
            if n.keys is not None:
                # a dict whose insertion order is tracked keeps being tracked: an arbitrary order consistent with
                # the arbitrary new domain
                self.world.dict_order(self, st, ref)
        elif isinstance(n, Obj):
            f = {k: self.fresh_like(st, v, k) for k, v in n.fields.items()}
            st.setnode(ref, Obj(n.cls, f))
        elif hasattr(n, 'argkinds'):
            # ghost call log of a callback
            nn = fresh('ncalls', I)
            st.assume(nn >= 0)
            st.setnode(ref, n.replace(n=nn, args=[tuple(list(d[:2]) + [fresh('hvlog', x.sort()) for x in d[2:]]) for d in n.args],
                                      ret=tuple(list(n.ret[:2]) + [fresh('hvret', x.sort()) for x in n.ret[2:]])))
        else:
            raise EngineError('havoc of node %r' % n)

    def fresh_like(self, st, v, name='v'):
        if v is None:
            return None
        k = v.kind
        if k == 'int':
            return VInt(fresh(name, I))
        if k == 'real':
            return VReal(fresh(name, R))
        if k == 'bool':
            return VBool(fresh(name, B))
        if k == 'str':
            return VStr(fresh(name, Str))
        if k == 'cls':
            return VCls(fresh(name, Cls))
        if k == 'val':
            return VVal(fresh(name, self.world.Val))
        if k == 'none':
            return NONE
        if k == 'tuple':
            return VTuple([self.fresh_like(st, x, name) for x in v.items], v.islist)
        if k == 'opt':
            return VOpt(fresh(name + '_isnone', B), self.fresh_like(st, v.val, name))
        if k == 'fn':
            if v.fk in ('sym',):
                return VFn('sym', term=fresh(name, self.world.Fn))
            return v
        if k == 'ref':
            n = st.node(v)
            if isinstance(n, Arr):
                ln = fresh(name + '_len', I)
                st.assume(ln >= 0)
                return st.alloc(Arr(n.elem, fresh(name, n.a.sort()), ln, n.flavour))
            if isinstance(n, Dict):
                return st.alloc(n.replace(dom=fresh(name + '_dom', n.dom.sort()), val=fresh(name + '_val', n.val.sort()),
                                          idom=None if n.idom is None else fresh(name + '_idom', n.idom.sort()),
                                          keys=None, nkeys=None, pos=None))
            if isinstance(n, Obj):
                return st.alloc(Obj(n.cls, {kk: self.fresh_like(st, vv, kk) for kk, vv in n.fields.items()}))
        if k in ('mod', 'exc', 'range', 'dictval', 'inner'):
            return v
        if k == 'ghost':
            return type(v)(fresh(name, v.term.sort()))
        raise EngineError('cannot havoc a value of kind %s' % k)

    # ------------------------------------------------------------------
    # statements
    # ------------------------------------------------------------------
    def exec_block(self, stmts, st):
        """returns list of Result with flow in normal/return/raise/break/continue"""
        states = [Result(st)]
        done = []
        for stmt in stmts:
            nxt = []
            for r in states:
                for r2 in self.exec_stmt(stmt, r.st):
                    if r2.flow == 'normal':
                        nxt.append(r2)
                    else:
                        done.append(r2)
            states = nxt
            if not states:
                break
        return states + done

    def exec_stmt(self, s, st):
        m = getattr(self, 'st_' + type(s).__name__, None)
        if m is None:
            raise EngineError('%s:%d: statement outside the subset: %s' % (self.rel, s.lineno, type(s).__name__))
        return m(s, st)

    def st_Pass(self, s, st):
        return [Result(st)]

    def st_Import(self, s, st):
        st = st.copy()
        for a in s.names:
            st.env[(a.asname or a.name).split('.')[0]] = VMod((a.asname or a.name).split('.')[0])
        return [Result(st)]

    def st_Expr(self, s, st):
        if isinstance(s.value, ast.Constant):
            return [Result(st)]
        if isinstance(s.value, ast.Yield):
            return self.world.yield_stmt(self, st, s)
        out = []
        for r in self.ev(s.value, st):
            out.append(Result(r.st, exc=r.exc, flow='raise') if r.exc is not None else Result(r.st))
        return out

    def st_Return(self, s, st):
        if s.value is None:
            return [Result(st, NONE, flow='return')]
        out = []
        for r in self.ev(s.value, st):
            out.append(Result(r.st, exc=r.exc, flow='raise') if r.exc is not None else Result(r.st, r.val, flow='return'))
        return out

    def st_Break(self, s, st):
        return [Result(st, flow='break')]

    def st_Continue(self, s, st):
        return [Result(st, flow='continue')]

    def st_FunctionDef(self, s, st):
        st = st.copy()
        st.env[s.name] = VFn('closure', node=s, env=dict(st.env), name=s.name)
        return [Result(st)]

    def st_Assert(self, s, st):
        out = []
        for r in self.ev(s.test, st):
            if r.exc is not None:
                out.append(Result(r.st, exc=r.exc, flow='raise'))
                continue
            self.oblige(r.st, 'assert', self.truth(r.st, r.val), s.lineno)
            r.st.assume(self.truth(r.st, r.val))
            out.append(Result(r.st))
        return out

    def st_Raise(self, s, st):
        if s.exc is None:
            cur = st.marks.get('__handling__')
            if cur is None:
                raise EngineError('bare raise outside a handler')
            return [Result(st, exc=cur, flow='raise')]
        out = []
        for r in self.ev(s.exc, st):
            if r.exc is not None:
                out.append(Result(r.st, exc=r.exc, flow='raise'))
                continue
            v = r.val
            if v.kind == 'cls':
                v = VExc(v, [])
            if v.kind == 'val':
                v = self.world.val_to_exc(self, r.st, v)
            if v.kind != 'exc':
                raise EngineError('%s:%d: raise of %s' % (self.rel, s.lineno, v.kind))
            out.append(Result(r.st, exc=v, flow='raise'))
        return out

    def st_Assign(self, s, st):
        out = []
        if (isinstance(s.value, ast.Dict) and not s.value.keys and len(s.targets) == 1
                and isinstance(s.targets[0], ast.Name)):
            ty = (self.cur.extra.get('locals') or {}).get(s.targets[0].id)
            if ty is None or not ty.startswith(('Dict[', 'ODict[')):
                raise EngineError('%s:%d: empty dict literal: declare locals={%r: "Dict[K,V]"} in the contract'
                                  % (self.rel, s.lineno, s.targets[0].id))
            k, v = [x.strip().lower() for x in ty[ty.index('[') + 1:-1].split(',', 1)]
            st = st.copy()
            ks = self.sort_of_kind(k)
            d = Dict(k, v, z3.K(ks, z3.BoolVal(False)), fresh('emptyval', z3.ArraySort(ks, self.sort_of_kind(v))))
            if ty.startswith('ODict['):
                # insertion order is tracked from the start (keys[i] = i-th inserted key, pos = its inverse)
                d = d.replace(keys=fresh('keys', z3.ArraySort(I, ks)), nkeys=z3.IntVal(0), pos=fresh('pos', z3.ArraySort(ks, I)))
            st.env[s.targets[0].id] = st.alloc(d)
            return [Result(st)]
        if (isinstance(s.value, ast.List) and not s.value.elts and len(s.targets) == 1
                and isinstance(s.targets[0], ast.Name)
                and ((self.cur.extra.get('locals') or {}).get(s.targets[0].id) or '').startswith('Arr[')):
            # a declared local list that starts empty and is appended to: a heap list of that element kind
            ek = self.cur.extra['locals'][s.targets[0].id][4:-1].strip().lower()
            st = st.copy()
            st.env[s.targets[0].id] = st.alloc(Arr(ek, fresh('emptylist', z3.ArraySort(I, self.sort_of_kind(ek))),
                                                   z3.IntVal(0), 'list'))
            return [Result(st)]
        for r in self.ev(s.value, st):
            if r.exc is not None:
                out.append(Result(r.st, exc=r.exc, flow='raise'))
                continue
            states = [r.st]
            for t in s.targets:
                nxt = []
                for s2 in states:
                    for r2 in self.assign(t, r.val, s2):
                        if r2.flow == 'raise':
                            out.append(r2)
                        else:
                            nxt.append(r2.st)
                states = nxt
            hooks = (self.cur.extra.get('after_assign') or {}) if self.cur is not None else {}
            names = [t.id for t in s.targets if isinstance(t, ast.Name)]
            for x in states:
                for nm in names:
                    for lem in hooks.get(nm, []):
                        # ghost: a lemma / fact about the value just assigned (proved here, then available)
                        if isinstance(lem, str):
                            t = self.sbool(lem, x)
                            self.oblige(x, 'fact-after-%s/%d' % (nm, hooks[nm].index(lem)), t, s.lineno)
                            x.assume(t)
                        else:
                            self.prove_lemma(self.cur, x, lem)
            out.extend(Result(x) for x in states)
        return out

    def st_AugAssign(self, s, st):
        load = copy.copy(s.target)
        load = ast.parse(ast.unparse(s.target), mode='eval').body
        ast.copy_location(load, s.target)
        for n in ast.walk(load):
            ast.copy_location(n, s)
        be = ast.BinOp(left=load, op=s.op, right=s.value)
        ast.copy_location(be, s)
        return self.st_Assign(ast.Assign(targets=[s.target], value=be, lineno=s.lineno), st)

    def assign(self, target, val, st):
        if isinstance(target, ast.Name):
            st = st.copy()
            st.env[target.id] = val
            return [Result(st)]
        if isinstance(target, (ast.Tuple, ast.List)):
            if hasattr(val, 'sv_unpack'):
                out = []
                for s2, vals, exc in val.sv_unpack(self, st, len(target.elts)):
                    if exc is not None:
                        out.append(exc)
                        continue
                    states = [s2]
                    for t, v in zip(target.elts, vals):
                        nxt = []
                        for s3 in states:
                            for r in self.assign(t, v, s3):
                                (out if r.flow == 'raise' else nxt).append(r if r.flow == 'raise' else r.st)
                        states = nxt
                    out.extend(Result(x) for x in states)
                return out
            if val.kind == 'none':
                return [self.exc(st, 'TypeError')]      # cannot unpack None
            if val.kind != 'tuple':
                vals = self.world.unpack(self, st, val, len(target.elts))
                if vals is None:
                    raise EngineError('%s:%d: unpacking a value of kind %s' % (self.rel, target.lineno, val.kind))
            else:
                vals = val.items
            if len(vals) != len(target.elts):
                return [self.exc(st, 'ValueError')]
            states = [st]
            out = []
            for t, v in zip(target.elts, vals):
                nxt = []
                for s2 in states:
                    for r in self.assign(t, v, s2):
                        (out if r.flow == 'raise' else nxt).append(r if r.flow == 'raise' else r.st)
                states = nxt
            return out + [Result(x) for x in states]
        if isinstance(target, ast.Attribute):
            out = []
            for r in self.ev(target.value, st):
                if r.exc is not None:
                    out.append(Result(r.st, exc=r.exc, flow='raise'))
                    continue
                base = r.val
                if base.kind != 'ref' or not isinstance(r.st.node(base), Obj):
                    raise EngineError('%s:%d: attribute store on %s' % (self.rel, target.lineno, base.kind))
                hook = self.world.obj_setattr(self, r.st, base, r.st.node(base), target.attr, val, target)
                if hook is not None:
                    out.extend(hook)
                    continue
                s2 = r.st.copy()
                s2.setnode(base, s2.node(base).replace(**{target.attr: val}))
                out.append(Result(s2))
            return out
        if isinstance(target, ast.Subscript):
            return self.subscript_store(target, val, st)
        raise EngineError('%s:%d: assignment target %s' % (self.rel, target.lineno, type(target).__name__))

    def subscript_store(self, target, val, st):
        out = []
        line = target.lineno
        if isinstance(target.slice, ast.Slice):
            parts = [target.value] + [x for x in (target.slice.lower, target.slice.upper) if x is not None]
            acc, excs = self.ev_list(parts, st)
            out.extend(Result(r.st, exc=r.exc, flow='raise') for r in excs)
            for s, vals in acc:
                base = vals[0]
                k = 1
                lo = hi = None
                if target.slice.lower is not None:
                    lo = vals[k]
                    k += 1
                if target.slice.upper is not None:
                    hi = vals[k]
                out.extend(self.slice_store(s, base, lo, hi, val, target))
            return out
        # nested dict store  d[k1][k2] = v  (inner dict held by value)
        acc, excs = self.ev_list([target.value, target.slice], st)
        out.extend(Result(r.st, exc=r.exc, flow='raise') for r in excs)
        for s, (base, idx) in acc:
            s = s.copy()
            if base.kind == 'ref':
                n = s.node(base)
                if isinstance(n, Arr):
                    t = to_int(idx)
                    self.oblige(s, 'index-bounds', z3.And(t >= 0, t < n.n), line)
                    if n.width is not None and n.elem == 'str':
                        # a fixed-width numpy string array silently truncates what does not fit
                        self.oblige(s, 'store-fits-string-width', smt.len_s(self.unwrap(val, 'str')) <= n.width, line)
                    s.setnode(base, n.replace(a=z3.Store(n.a, t, self.unwrap(val, n.elem))))
                    out.append(Result(s))
                    continue
                if isinstance(n, Dict):
                    kt = self.unwrap(idx, n.kkind)
                    if n.inner:
                        dv = self.as_dict(s, val)
                        if dv is None or dv[5]:
                            raise EngineError('%s:%d: nested dict store of %s' % (self.rel, line, val.kind))
                        # the inner dict is held by value (aliases of the stored dict object are not tracked)
                        s.setnode(base, n.replace(dom=z3.Store(n.dom, kt, z3.BoolVal(True)),
                                                  val=z3.Store(n.val, kt, dv[3]),
                                                  idom=z3.Store(n.idom, kt, dv[2]), keys=None, nkeys=None, pos=None))
                    else:
                        kw = dict(dom=z3.Store(n.dom, kt, z3.BoolVal(True)),
                                  val=z3.Store(n.val, kt, self.unwrap(val, n.vkind)))
                        if n.keys is not None:
                            # insertion order: updating an existing key keeps it, a new key is appended
                            present = n.dom[kt]
                            kw.update(keys=z3.If(present, n.keys, z3.Store(n.keys, n.nkeys, kt)),
                                      pos=z3.If(present, n.pos, z3.Store(n.pos, kt, n.nkeys)),
                                      nkeys=z3.If(present, n.nkeys, n.nkeys + 1))
                        s.setnode(base, n.replace(**kw))
                    out.append(Result(s))
                    continue
                if isinstance(n, Obj):
                    r = self.world.obj_index_store(self, s, base, n, idx, val, target)
                    if r is not None:
                        out.extend(r)
                        continue
            if base.kind == 'inner':
                n = s.node(base.ref)
                k2 = self.unwrap(idx, n.inner[0])
                row = z3.Store(n.val[base.key], k2, self.unwrap(val, n.inner[1]))
                drow = z3.Store(n.idom[base.key], k2, z3.BoolVal(True))
                s.setnode(base.ref, n.replace(val=z3.Store(n.val, base.key, row), idom=z3.Store(n.idom, base.key, drow)))
                out.append(Result(s))
                continue
            raise EngineError('%s:%d: subscript store on %s' % (self.rel, line, base.kind))
        return out

    def slice_store(self, st, base, lo, hi, val, target):
        line = target.lineno
        if not (base.kind == 'ref' and isinstance(st.node(base), Arr)):
            raise EngineError('%s:%d: slice store on %s' % (self.rel, line, base.kind))
        n = st.node(base)
        lo_c, hi_c, ln = self.slice_bounds(st, n, lo, hi, line)
        st = st.copy()
        k = fresh('k', I)
        a2 = fresh('sst', n.a.sort())
        if is_num(val):
            rhs = lambda k: self.unwrap(val, n.elem)
        elif val.kind == 'ref' and isinstance(st.node(val), Arr):
            src = st.node(val)
            # numpy requires the shapes to agree (broadcast of a length-1 source aside)
            self.oblige(st, 'slice-assign-length', src.n == ln, line)
            if src.elem != n.elem and not (src.elem in ('int', 'bool') and n.elem == 'real'):
                raise EngineError('slice store element kind mismatch')
            rhs = (lambda k: z3.ToReal(src.a[k - lo_c])) if (src.elem == 'int' and n.elem == 'real') else (lambda k: src.a[k - lo_c])
        else:
            raise EngineError('%s:%d: slice store of %s' % (self.rel, line, val.kind))
        st.assume(z3.ForAll([k], a2[k] == z3.If(z3.And(lo_c <= k, k < lo_c + ln), rhs(k), n.a[k]), patterns=[a2[k]]))
        st.setnode(base, n.replace(a=a2))
        return [Result(st)]

    def st_Delete(self, s, st):
        out = []
        states = [st]
        for t in s.targets:
            nxt = []
            for s0 in states:
                if not isinstance(t, ast.Subscript):
                    raise EngineError('del of a non-subscript')
                acc, excs = self.ev_list([t.value, t.slice], s0)
                out.extend(Result(r.st, exc=r.exc, flow='raise') for r in excs)
                for s1, (base, idx) in acc:
                    if base.kind == 'inner':
                        # del of a key of a dict held by value inside its container
                        n = s1.node(base.ref)
                        k2 = self.unwrap(idx, n.inner[0])
                        yes, no = self.fork(s1, n.idom[base.key][k2])
                        for s2 in yes:
                            s2 = s2.copy()
                            n2 = s2.node(base.ref)
                            drow = z3.Store(n2.idom[base.key], k2, z3.BoolVal(False))
                            s2.setnode(base.ref, n2.replace(idom=z3.Store(n2.idom, base.key, drow)))
                            nxt.append(s2)
                        for s2 in no:
                            out.append(self.exc(s2, 'KeyError', idx))
                        continue
                    n = s1.node(base) if base.kind == 'ref' else None
                    if not isinstance(n, Dict):
                        raise EngineError('del on a non-dict')
                    kt = self.unwrap(idx, n.kkind)
                    yes, no = self.fork(s1, n.dom[kt])
                    for s2 in yes:
                        s2 = s2.copy()
                        s2.setnode(base, s2.node(base).replace(dom=z3.Store(n.dom, kt, z3.BoolVal(False)), keys=None, nkeys=None, pos=None))
                        nxt.append(s2)
                    for s2 in no:
                        out.append(self.exc(s2, 'KeyError', idx))
            states = nxt
        return out + [Result(x) for x in states]

    def st_If(self, s, st):
        out = []
        for r in self.ev(s.test, st):
            if r.exc is not None:
                out.append(Result(r.st, exc=r.exc, flow='raise'))
                continue
            for s1, v in self.norm_opt(r.st, r.val):
                yes, no = self.fork(s1, self.truth(s1, v))
                for s2 in yes:
                    out.extend(self.exec_block(s.body, s2))
                for s2 in no:
                    out.extend(self.exec_block(s.orelse, s2) if s.orelse else [Result(s2)])
        return out

    # ---- loops ----------------------------------------------------------
    def loop_contract(self, s):
        ordinal = self.loop_ordinals.get(id(s))
        if ordinal is None:
            raise EngineError('%s:%d: loop not indexed' % (self.rel, s.lineno))
        lc = self.cur.loops.get(ordinal)
        if lc is None:
            raise EngineError('%s:%d: loop %d of %s has no invariant in its contract (header: %s)'
                              % (self.rel, s.lineno, ordinal, self.cur.qualname, self.loop_header(s)))
        want = lc.get('header')
        have = self.loop_header(s)

        def canon(h):
            return ''.join(ch for ch in h if ch not in '() ')
        same_shape = want is None or canon(want.split(' in ')[0]) == canon(have.split(' in ')[0]) \
            or (want.startswith('while ') and have.startswith('while ')) \
            or (' in ' in want and ' in ' in have and canon(want.split(' in ', 1)[1]) == canon(have.split(' in ', 1)[1]))
        # (same iterable, renamed loop variables: the invariants stay attached; one that names a renamed variable
        # stops the check with "unknown name", the others are checked as before)
        if want is not None and canon(want) != canon(have) and same_shape:
            # bounds / iterable edited: the invariants are still attached to this loop and are
            # checked against the new header (they fail if the edit matters)
            self.notes.append('%s:%d: loop %d header changed from %r to %r' % (self.rel, s.lineno, ordinal, want, have))
        if not same_shape:
            raise EngineError('%s:%d: loop %d header is %r but the contract was written for %r: re-bind the contract'
                              % (self.rel, s.lineno, ordinal, self.loop_header(s), want))
        return ordinal, lc

    def has_loop_contract(self, s):
        ordinal = self.loop_ordinals.get(id(s))
        return ordinal is not None and self.cur is not None and self.cur.loops.get(ordinal) is not None

    def loop_header(self, s):
        if isinstance(s, ast.For):
            return 'for %s in %s' % (ast.unparse(s.target), ast.unparse(s.iter))
        return 'while %s' % ast.unparse(s.test)

    def written_nodes(self, body, st):
        """heap references mutated in place by the loop body (resolved at loop entry)"""
        refs = {}
        for kind, x in store_bases(body):
            if kind == 'store':
                basee = x.value
                try:
                    v = self.sev(basee, st)
                except EngineError:
                    v = None
                if v is None:
                    # base not defined before the loop (a local created in the body): nothing to havoc
                    continue
                if v.kind == 'ref':
                    refs[v.nid] = v
                elif v.kind == 'inner':
                    refs[v.ref.nid] = v.ref
            else:
                f = x.func
                if isinstance(f, ast.Attribute) and f.attr not in PURE_METHODS:
                    try:
                        v = self.sev(f.value, st)
                    except EngineError:
                        v = None
                    if v is not None and v.kind == 'ref' and not isinstance(st.node(v), Obj):
                        refs[v.nid] = v
                    elif v is not None and v.kind == 'inner':
                        refs[v.ref.nid] = v.ref
                for r in self.world.call_writes(self, st, x):
                    refs[r.nid] = r
        return list(refs.values())

    def st_For(self, s, st):
        if s.orelse:
            raise EngineError('for-else is outside the subset')
        out = []
        for r in self.ev(s.iter, st):
            if r.exc is not None:
                out.append(Result(r.st, exc=r.exc, flow='raise'))
                continue
            out.extend(self.for_loop(s, r.st, r.val))
        return out

    def iter_spec(self, st, itv, s):
        """(lo, hi, element(st, k) -> SV) for the iterable"""
        if hasattr(itv, 'sv_iter'):
            return itv.sv_iter(self, st, s)
        if itv.kind == 'range':
            return itv.lo, itv.hi, (lambda st, k: VInt(k))
        if itv.kind == 'ref':
            n = st.node(itv)
            if isinstance(n, Arr):
                nid = itv
                # iterate over the entry snapshot of the sequence
                a0, elem = n.a, n.elem
                return z3.IntVal(0), n.n, (lambda st, k: self.wrap(elem, a0[k]))
            if isinstance(n, Dict) and n.seq is not None:
                return z3.IntVal(0), n.seq, (lambda st, k: VInner(itv, k))
            if isinstance(n, Dict):
                st2, keys, nkeys = self.world.dict_order(self, st, itv)
                kk = n.kkind
                return z3.IntVal(0), nkeys, (lambda st, k: self.wrap(kk, keys[k]))
        if itv.kind == 'tuple':
            return None
        v = self.world.iter_spec(self, st, itv, s)
        if v is not None:
            return v
        raise EngineError('%s:%d: iteration over %s' % (self.rel, s.lineno, itv.kind))

    def cut_tuple_loop(self, s, st, ordinal, lc, items):
        """for over a concrete sequence (a list display of known length) *with* a loop contract: instead of
        unrolling along every path (exponential in the number of items when the body branches), each position is
        verified on its own from a havoced state that satisfies the invariants at that position - the same cut as
        cut_loop, with a concrete index."""
        line = s.lineno
        tag = 'loop%d' % ordinal
        invs = lc.get('invariant', [])
        idx_name = lc.get('index', '__i%d' % ordinal)

        def inv_terms(state, p):
            return [self.sbool(iv, state, {idx_name: VInt(z3.IntVal(p))}) for iv in invs]
        entry = st.copy()
        entry.marks = dict(entry.marks)
        entry.marks[tag] = st.snapshot()
        for j, t in enumerate(inv_terms(entry, 0)):
            self.oblige(entry, '%s/inv%d-init' % (tag, j), t, line)
        hv = entry.copy()
        names = assigned_names(s.body) | assigned_names([s])
        for nm in sorted(names):
            if nm in hv.env:
                hv.env[nm] = self.fresh_like(hv, hv.env[nm], nm)
        for item in items:
            try:
                probes = [r0.st for r0 in self.assign(s.target, item, entry.copy())] or [entry]
            except EngineError:
                probes = [entry]
            for pr in probes:
                for ref in self.written_nodes(s.body, pr):
                    self.havoc_node(hv, ref)
        for path in lc.get('modifies', []):
            self.havoc_path(hv, path)
        out, after_break = [], []
        for p, item in enumerate(items):
            it = hv.copy()
            for j, t in enumerate(inv_terms(it, p)):
                it.assume(t, tag='%s/inv%d' % (tag, j))
            if not self.feasible(it):
                continue
            for r0 in self.assign(s.target, item, it):
                for r in self.exec_block(s.body, r0.st):
                    if r.flow in ('normal', 'continue'):
                        self.oblige(r.st, 'sentinel/%s-body-reachable' % tag, z3.BoolVal(False), line)
                        for j, t in enumerate(inv_terms(r.st, p + 1)):
                            self.oblige(r.st, '%s/inv%d-preserved' % (tag, j), t, line)
                    elif r.flow == 'break':
                        after_break.append(Result(r.st))
                    else:
                        out.append(r)
        ex = hv.copy()
        for j, t in enumerate(inv_terms(ex, len(items))):
            ex.assume(t, tag='%s/inv%d' % (tag, j))
        if self.feasible(ex):
            out.append(Result(ex))
        return out + after_break

    def for_loop(self, s, st, itv):
        if itv.kind == 'tuple' and self.has_loop_contract(s):
            ordinal, lc = self.loop_contract(s)
            return self.cut_tuple_loop(s, st, ordinal, lc, itv.items)
        if itv.kind == 'tuple':
            # concrete sequence: unroll
            states = [st]
            out = []
            for item in itv.items:
                nxt = []
                for s0 in states:
                    for r0 in self.assign(s.target, item, s0):
                        for r in self.exec_block(s.body, r0.st):
                            if r.flow in ('normal', 'continue'):
                                nxt.append(r.st)
                            elif r.flow == 'break':
                                out.append(Result(r.st))
                            else:
                                out.append(r)
                states = nxt
            return out + [Result(x) for x in states]
        ordinal, lc = self.loop_contract(s)
        lo, hi, elem = self.iter_spec(st, itv, s)
        return self.cut_loop(s, st, ordinal, lc, lo=lo, hi=hi, elem=elem)

    def st_While(self, s, st):
        if s.orelse:
            raise EngineError('while-else is outside the subset')
        ordinal, lc = self.loop_contract(s)
        return self.cut_loop(s, st, ordinal, lc)

    def cut_loop(self, s, st, ordinal, lc, lo=None, hi=None, elem=None):
        is_for = isinstance(s, ast.For)
        line = s.lineno
        tag = 'loop%d' % ordinal
        if lc.get('ghost') or lc.get('lemmas'):
            # ghost functions / lemmas introduced at this loop's entry (they may speak about locals defined by then)
            st = st.copy()
            self.declare_ghost_dict(lc.get('ghost', {}), st, tag)
            for j, lem in enumerate(lc.get('lemmas', [])):
                self.lemma_or_fact(st, lem, '%s/entry-fact%d' % (tag, j), line)
        invs = lc.get('invariant', [])
        ivar = '__i%d' % ordinal
        idx_name = lc.get('index', ivar)
        out = []
        entry = st.copy()
        entry.marks = dict(entry.marks)
        entry.marks[tag] = st.snapshot()

        seqval = None
        if is_for and not isinstance(s.iter, ast.Call) or (is_for and isinstance(s.iter, ast.Call)
                                                           and not (isinstance(s.iter.func, ast.Name) and s.iter.func.id == 'range')):
            from .world import VArrVal
            kq = fresh('sq', I)
            try:
                e0 = elem(st, kq)
                if e0.kind in ('int', 'real', 'bool', 'str', 'val'):
                    seqval = VArrVal(e0.kind, z3.Lambda([kq], e0.term), hi)
                elif e0.kind == 'tuple':
                    seqval = VTuple([VArrVal(x.kind, z3.Lambda([kq], x.term), hi) for x in e0.items])
            except Exception:
                seqval = None

        def inv_terms(state, k):
            b = {idx_name: VInt(k)} if is_for else {}
            if seqval is not None:
                b['__seq%d' % ordinal] = seqval
            if is_for and isinstance(s.target, ast.Name) and itv_is_range:
                b[s.target.id] = VInt(k)
            return [self.sbool(iv, state, b) for iv in invs]

        itv_is_range = is_for and elem is not None and lc.get('range', True) and isinstance(s.iter, ast.Call) \
            and isinstance(s.iter.func, ast.Name) and s.iter.func.id == 'range'
        # 1. initiation
        if is_for:
            k0 = lo
            for j, t in enumerate(inv_terms(entry, k0)):
                self.oblige(entry, '%s/inv%d-init' % (tag, j), t, line)
        else:
            for j, t in enumerate(inv_terms(entry, None)):
                self.oblige(entry, '%s/inv%d-init' % (tag, j), t, line)
        # 2. arbitrary iteration: havoc what the body may write
        hv = entry.copy()
        names = assigned_names(s.body) | (assigned_names([s]) if is_for else set())
        for nm in sorted(names):
            if nm in hv.env:
                hv.env[nm] = self.fresh_like(hv, hv.env[nm], nm)
        probes = [entry]
        if is_for and elem is not None:
            # the loop target may alias into a container (an element that is a dict held by value inside its tuple):
            # writes through it are writes to that container
            try:
                probes = [r0.st for r0 in self.assign(s.target, elem(entry, fresh('probe', I)), entry.copy())] or [entry]
            except EngineError:
                probes = [entry]
        for pr in probes:
            for ref in self.written_nodes(s.body, pr):
                self.havoc_node(hv, ref)
        for path in lc.get('modifies', []):
            self.havoc_path(hv, path)
        if is_for:
            k = fresh(idx_name.strip('_') or 'i', I)
            it = hv.copy()
            it.assume(lo <= k, k < hi)
            for j, t in enumerate(inv_terms(it, k)):
                it.assume(t, tag='%s/inv%d' % (tag, j))
            body_states = []
            for r0 in self.assign(s.target, elem(it, k), it):
                r0.st.env = dict(r0.st.env)
                r0.st.env[ivar] = VInt(k)        # ghost: the position of this iteration (for invariants of inner loops)
                body_states.append(r0.st)
        else:
            it = hv.copy()
            for j, t in enumerate(inv_terms(it, None)):
                it.assume(t, tag='%s/inv%d' % (tag, j))
            body_states = []
            dec0 = None
            for r in self.ev(s.test, it):
                if r.exc is not None:
                    out.append(Result(r.st, exc=r.exc, flow='raise'))
                    continue
                yes, no = self.fork(r.st, self.truth(r.st, r.val))
                body_states.extend(yes)
        after_break = []
        hidden_before = set(self.hidden)
        self.hidden |= set(lc.get('hide', []))
        body_results_guard = True
        for bs in body_states:
            if not self.feasible(bs):
                continue
            bs.marks = dict(bs.marks)
            bs.marks[tag + '-iter'] = bs.snapshot()       # the state at the start of this iteration
            dec0 = None
            if lc.get('decreases') is not None:
                dec0 = to_int(self.sev(lc['decreases'], bs))
                self.oblige(bs, '%s/decreases-bounded' % tag, dec0 >= 0, line)
            for r in self.exec_block(s.body, bs):
                if r.flow in ('normal', 'continue'):
                    self.oblige(r.st, 'sentinel/%s-body-reachable' % tag, z3.BoolVal(False), line)
                    for j, lem in enumerate(lc.get('body_end', [])):
                        # ghost: lemmas / facts at the end of the loop body (before the invariant is re-established)
                        if isinstance(lem, dict) and lem.get('when') is not None:
                            when = self.sbool(lem['when'], r.st)
                            sub = r.st.copy()
                            sub.assume(when)
                            if not self.feasible(sub):
                                continue
                            try:
                                self.lemma_or_fact(sub, lem, '%s/body-end%d' % (tag, j), line)
                            except EngineError:
                                # the ghost step cannot even be stated on this path (a name it speaks about is not
                                # defined here): reported as an undischarged obligation
                                self.oblige(sub, 'reachability/%s-body-end%d-statable' % (tag, j), z3.BoolVal(False), line)
                                continue
                            # what was established under `when` is kept as an implication
                            for t in sub.pc[len(r.st.pc) + 1:]:
                                r.st.assume(z3.Implies(when, t))
                        else:
                            self.lemma_or_fact(r.st, lem, '%s/body-end%d' % (tag, j), line)
                    hide_for = lc.get('hide_for', {})
                    for j, t in enumerate(inv_terms(r.st, k + 1) if is_for else inv_terms(r.st, None)):
                        saved = set(self.hidden)
                        self.hidden |= set(hide_for.get(j, []))     # hypotheses irrelevant for this invariant
                        self.oblige(r.st, '%s/inv%d-preserved' % (tag, j), t, line)
                        self.hidden = saved
                        if dec0 is not None:
                            self.oblige(r.st, '%s/decreases' % tag, to_int(self.sev(lc['decreases'], r.st)) < dec0, line)
                elif r.flow == 'break':
                    after_break.append(Result(r.st))
                else:
                    out.append(r)
        self.hidden = hidden_before
        # 3. after the loop
        ex = hv.copy()
        if is_for:
            kend = z3.If(hi > lo, hi, lo)
            for j, t in enumerate(inv_terms(ex, kend)):
                ex.assume(t, tag='%s/inv%d' % (tag, j))
            for j, lem in enumerate(lc.get('lemmas_after', [])):
                self.lemma_or_fact(ex, lem, '%s/exit-fact%d' % (tag, j), line)
            # python leaves the loop variable at its last value; the verified code never
            # relies on it, so it is left unconstrained (havoced above)
            if self.feasible(ex):
                out.append(Result(ex))
        else:
            for t in inv_terms(ex, None):
                ex.assume(t)
            for r in self.ev(s.test, ex):
                if r.exc is not None:
                    out.append(Result(r.st, exc=r.exc, flow='raise'))
                    continue
                yes, no = self.fork(r.st, self.truth(r.st, r.val))
                out.extend(Result(x) for x in no)
        out.extend(after_break)
        return out

    # ---- try / with -------------------------------------------------------
    def exc_matches(self, st, exc, type_expr):
        """z3 Bool: exception value matches the handler's type expression"""
        if type_expr is None:
            return z3.BoolVal(True)
        rs = self.ev(type_expr, st)
        t = rs[0].val
        if t.kind == 'tuple':
            return z3.Or([smt.subclass(exc.cls.term, x.term) for x in t.items])
        if t.kind != 'cls':
            raise EngineError('except clause with a non-class')
        return smt.subclass(exc.cls.term, t.term)

    def st_Try(self, s, st):
        results = self.exec_block(s.body, st)
        out = []
        for r in results:
            if r.flow == 'raise' and s.handlers:
                pending = [r.st]
                for h in s.handlers:
                    nxt = []
                    for s0 in pending:
                        yes, no = self.fork(s0, self.exc_matches(s0, r.exc, h.type))
                        for s1 in yes:
                            s1 = s1.copy()
                            if h.name:
                                s1.env[h.name] = r.exc
                            s1.marks = dict(s1.marks)
                            s1.marks['__handling__'] = r.exc
                            for r2 in self.exec_block(h.body, s1):
                                out.append(r2)
                        nxt.extend(no)
                    pending = nxt
                for s0 in pending:
                    out.append(Result(s0, exc=r.exc, flow='raise'))
            elif r.flow == 'normal' and s.orelse:
                out.extend(self.exec_block(s.orelse, r.st))
            else:
                out.append(r)
        if not s.finalbody:
            return out
        final = []
        for r in out:
            for f in self.exec_block(s.finalbody, r.st):
                if f.flow == 'normal':
                    final.append(Result(f.st, r.val, r.exc, r.flow))
                else:
                    final.append(f)      # finally overrides
        return final

    def st_With(self, s, st):
        return self.world.with_stmt(self, st, s)

    # ------------------------------------------------------------------
    # ghosts & lemmas
    # ------------------------------------------------------------------
    def declare_ghosts(self, c, st):
        """declare the contract's ghost functions - the definitions are evaluated in `st` (parameter values at entry)"""
        self.declare_ghost_dict(c.ghost, st, c.qualname.replace('.', '_'))

    def declare_ghost_dict(self, ghost, st, tag):
        for name, g in ghost.items():
            argk = g.get('args', ['int'])
            retk = g.get('ret', 'int')
            if g.get('shared') and name in self.ghosts:
                continue        # module-level ghost: one symbol for caller and callees
            inst = '%s!%s!%d' % (name, tag, next(_gc))
            fn = z3.Function(inst, *([self.sort_of_kind(k) for k in argk] + [self.sort_of_kind(retk)]))
            self.ghosts[name] = (fn, argk, retk)
        for name, g in ghost.items():
            # the characterising axioms of a ghost function are only consistent under these conditions: proved first
            for j, req in enumerate(g.get('requires', [])):
                self.oblige(st, 'ghost-%s/defined%d' % (name, j), self.sbool(req, st), 0)
            for ax in g.get('axioms', []):
                st.assume(self.sbool(ax, st), tag='ghost/' + name)

    # ------------------------------------------------------------------
    # verifying one function
    # ------------------------------------------------------------------
    def index_loops(self, fnode):
        self.loop_ordinals = {}
        k = 0
        for n in ast.walk(fnode):
            pass
        def visit(n):
            nonlocal k
            for c in ast.iter_child_nodes(n):
                if isinstance(c, (ast.For, ast.While)):
                    self.loop_ordinals[id(c)] = k
                    k += 1
                if isinstance(c, (ast.FunctionDef, ast.Lambda)) and c is not fnode:
                    # loops of nested defs are numbered in the same pre-order sequence
                    pass
                visit(c)
        visit(fnode)
        return k

    def verify(self, c, fnode, self_obj=None):
        """generate all obligations of contract c for function node fnode"""
        self.cur = c
        self.obligations = []
        self.ghosts = {}
        self.inlined = set()
        self.used_contracts = set()
        self.notes = []
        self.hidden = set()
        nloops = self.index_loops(fnode)
        for k in c.loops:
            if k >= nloops:
                raise EngineError('%s: contract names loop %d but the function has %d loops: re-bind the contract'
                                  % (c.key, k, nloops))
        st = State()
        st.globals = self.world.globals_for(self, st, c) if self.world else {}
        params = [p.arg for p in fnode.args.posonlyargs + fnode.args.args + fnode.args.kwonlyargs]
        if fnode.args.vararg:
            params.append(fnode.args.vararg.arg)
        if fnode.args.kwarg:
            params.append(fnode.args.kwarg.arg)
        for p in params:
            ty = c.types.get(p)
            if ty is None:
                raise EngineError('%s: parameter %r has no type in the contract' % (c.key, p))
            if ty == 'Default':
                # this variant of the contract is about the call that leaves the parameter at its default
                pos = fnode.args.posonlyargs + fnode.args.args
                dflt = None
                if p in [a.arg for a in pos]:
                    names = [a.arg for a in pos]
                    off = len(names) - len(fnode.args.defaults)
                    if names.index(p) >= off:
                        dflt = fnode.args.defaults[names.index(p) - off]
                if dflt is None:
                    raise EngineError('%s: parameter %r has no default' % (c.key, p))
                st.env[p] = self.default_value(dflt, st)
                continue
            st.env[p] = self.make_input(st, p, ty)
        for g, ty in c.extra.get('ghost_params', {}).items():
            st.env[g] = self.make_input(st, g, ty)
        self.declare_ghosts(c, st)
        for req in c.requires:
            st.assume(self.sbool(req, st))
        # lemmas (induction), proved first, then available as axioms
        for lem in c.lemmas:
            self.prove_lemma(c, st, lem)
        st.old = st.snapshot()
        entry = st
        results = self.exec_block(fnode.body, st.copy())
        self.stats['paths'] += len(results)
        if not any(r.flow in ('normal', 'return') for r in results) and not c.extra.get('never_returns'):
            # every path to a normal exit is infeasible under the contract's invariants / callee contracts: reported
            # as an undischarged obligation (prove.py treats it as `unknown`), together with whatever else failed
            self.oblige(st, 'reachability/some-normal-exit', z3.BoolVal(False), fnode.lineno)
        for r in results:
            if c.kind == 'contextmanager':
                self.check_contextmanager_exit(c, r, fnode, entry)
                continue
            if r.flow in ('normal', 'return'):
                post = r.st
                post.env = dict(post.env)
                post.env['result'] = r.val if r.val is not None else NONE
                for k, ens in enumerate(c.ensures):
                    self.oblige(post, 'post%d' % k, self.sbool(ens, post), fnode.lineno)
                for k, ens in enumerate(c.internal):
                    self.oblige(post, 'internal%d' % k, self.sbool(ens, post), fnode.lineno)
                for path, expr in (c.extra.get('installs') or {}).items():
                    # `installs`: on return the field holds exactly that object (identity); callers get the alias
                    self.oblige(post, 'installs/%s' % path, self.identical(post, self.sev(path, post), self.sev(expr, post)),
                                fnode.lineno)
                self.frame_obligations(c, entry, post, fnode)
                # vacuity sentinel: must NOT be provable
                self.oblige(post, 'sentinel/exit-reachable', z3.BoolVal(False), fnode.lineno)
            elif r.flow == 'raise':
                self.check_raise(c, r, fnode, entry)
            else:
                raise EngineError('%s: %s escapes the function' % (c.key, r.flow))
        return self.obligations

    def check_contextmanager_exit(self, c, r, fnode, entry):
        post = r.st
        how = post.marks.get('__exit__')
        if r.flow in ('normal', 'return'):
            if how is None:
                self.oblige(post, 'cm/yields-exactly-once', z3.BoolVal(False), fnode.lineno)
                return
            for k, e in enumerate(c.extra.get('exit_ok', [])):
                self.oblige(post, 'normal-exit/post%d' % k, self.sbool(e, post), fnode.lineno)
            self.oblige(post, 'sentinel/exit-reachable', z3.BoolVal(False), fnode.lineno)
        elif r.flow == 'raise':
            if how == 'exc' and r.exc is post.marks.get('__injected__'):
                # the block's exception propagates: the exit code that ran is what try/finally/except provides
                for k, e in enumerate(c.extra.get('exit_exc', [])):
                    self.oblige(post, 'exc-exit/post%d' % k, self.sbool(e, post), fnode.lineno)
                self.oblige(post, 'sentinel/exc-exit-reachable', z3.BoolVal(False), fnode.lineno)
            else:
                self.check_raise(c, r, fnode, entry)
        else:
            raise EngineError('%s: %s escapes the generator' % (c.key, r.flow))

    def check_raise(self, c, r, fnode, entry):
        exc = r.exc
        handled = z3.BoolVal(False)
        post = r.st
        for name, conds in c.raises.items():
            # '*' : any exception class (conditions may inspect exc_class / exc_args)
            match = z3.BoolVal(True) if name == '*' else exc.cls.term == smt.cls_const(name)
            m_st = post.copy()
            m_st.assume(match)
            if not self.feasible(m_st):
                continue
            m_st.env = dict(m_st.env)
            m_st.env['exc_args'] = VTuple(exc.args)
            m_st.env['exc_class'] = exc.cls
            for k, cnd in enumerate(conds):
                self.oblige(m_st, 'raise-%s/post%d' % (name, k), self.sbool(cnd, m_st), fnode.lineno)
            if c.extra.get('frame_on_raise', True):
                self.frame_obligations(c, entry, m_st, fnode, tag='raise-%s/' % name)
            handled = z3.Or(handled, match)
        self.oblige(post, 'no-unexpected-exception', handled, fnode.lineno)

    def frame_obligations(self, c, entry, post, fnode, tag=''):
        """every heap node reachable from the entry state and not covered by
        `modifies` has unchanged contents"""
        allowed_nodes, allowed_fields, allowed_objs = {}, {}, {}

        def allow(table, key, cond):
            table[key] = z3.Or(table[key], cond) if key in table else cond
        for m in c.modifies:
            cond = z3.BoolVal(True)
            if isinstance(m, tuple):
                cond, m = self.sbool(m[0], entry), m[1]
            if m.endswith('.*'):
                v = self.sev(m[:-2], entry)
                if v.kind == 'ref':
                    allow(allowed_objs, v.nid, cond)
                continue
            contents = m.endswith('[*]')
            p = m[:-3] if contents else m
            e = ast.parse(p, mode='eval').body
            if contents:
                v = self.sev(e, entry)
                if v.kind == 'opt':
                    v = v.val              # the contents of an optional container (when it is there)
                if v.kind == 'ref':
                    allow(allowed_nodes, v.nid, cond)
                elif v.kind == 'inner':
                    allow(allowed_nodes, v.ref.nid, cond)
            elif isinstance(e, ast.Attribute):
                b = self.sev(e.value, entry)
                allow(allowed_fields, (b.nid, e.attr), cond)
        for nid, n0 in entry.heap.items():
            n1 = post.heap.get(nid)
            if n1 is n0 or n1 is None:
                continue
            if isinstance(n0, Arr):
                if z3.is_true(allowed_nodes.get(nid, z3.BoolVal(False))):
                    continue
                if n1.a is n0.a and n1.n is n0.n:
                    continue
                k = fresh('k', I)
                goal = z3.And(n1.n == n0.n, z3.ForAll([k], z3.Implies(z3.And(0 <= k, k < n0.n), n1.a[k] == n0.a[k])))
                goal = z3.Or(allowed_nodes.get(nid, z3.BoolVal(False)), goal)
                self.oblige(post, '%sframe/array-%s' % (tag, self.node_name(entry, nid)), goal, fnode.lineno)
            elif isinstance(n0, Dict):
                if z3.is_true(allowed_nodes.get(nid, z3.BoolVal(False))):
                    continue
                goal = self.equal(post, VRef(nid), _in_state(entry, VRef(nid), self, post))
                goal = z3.Or(allowed_nodes.get(nid, z3.BoolVal(False)), goal)
                self.oblige(post, '%sframe/dict-%s' % (tag, self.node_name(entry, nid)), goal, fnode.lineno)
            elif isinstance(n0, Obj):
                for f, v0 in n0.fields.items():
                    v1 = n1.fields.get(f)
                    ok = z3.simplify(z3.Or(allowed_fields.get((nid, f), z3.BoolVal(False)),
                                           allowed_objs.get(nid, z3.BoolVal(False))))
                    if v1 is v0 or z3.is_true(ok):
                        continue
                    if v0 is None or v1 is None:
                        continue
                    try:
                        goal = self.same_value(post, v0, v1)
                    except EngineError:
                        goal = z3.BoolVal(False)
                    goal = z3.Or(ok, goal)
                    self.oblige(post, '%sframe/field-%s.%s' % (tag, self.node_name(entry, nid), f), goal, fnode.lineno)

    def same_value(self, st, v0, v1):
        if v0.kind == 'ref' and v1.kind == 'ref':
            return z3.BoolVal(v0.nid == v1.nid)
        return self.equal(st, v0, v1)

    def node_name(self, st, nid):
        for k, v in st.env.items():
            if isinstance(v, VRef) and v.nid == nid:
                return k
        for k, v in st.env.items():
            if isinstance(v, VRef) and isinstance(st.heap.get(v.nid), Obj):
                for f, fv in st.heap[v.nid].fields.items():
                    if isinstance(fv, VRef) and fv.nid == nid:
                        return '%s.%s' % (k, f)
        for k, v in st.globals.items():
            if isinstance(v, VRef) and v.nid == nid:
                return k
            if isinstance(v, VRef) and isinstance(st.heap.get(v.nid), Obj):
                for f, fv in st.heap[v.nid].fields.items():
                    if isinstance(fv, VRef) and fv.nid == nid:
                        return '%s.%s' % (k, f)
        return 'node%d' % nid

    def lemma_or_fact(self, st, lem, name, line):
        if isinstance(lem, str):
            t = self.sbool(lem, st)
            self.oblige(st, name, t, line)
            st.assume(t, tag='lemma/' + name)
        elif 'assume' in lem:
            # an instance of an axiom of an uninterpreted ghost predicate, used only here (listed in the trusted base)
            st.assume(self.sbool(lem['assume'], st))
            self.assumed.append(lem.get('why', lem['assume']))
        elif 'fact' in lem:
            t = self.sbool(lem['fact'], st)
            self.oblige(st, name, t, line)
            st.assume(t, tag='lemma/' + lem.get('name', name))
        else:
            self.prove_lemma(self.cur, st, lem)

    def prove_lemma(self, c, st, lem):
        """lemma by induction on an integer variable v >= base:
        obligations  stmt[v:=base]  and  v >= base /\\ stmt[v] => stmt[v+1];
        afterwards  forall v >= base. stmt  is assumed (with trigger)"""
        var = lem['var']
        base = to_int(self.sev(lem.get('base', '0'), st))
        name = lem['name']
        t0 = self.sbool(lem['stmt'], st, {var: VInt(base)})
        self.oblige(st, 'lemma-%s/base' % name, t0, 0)
        k = fresh(var, I)
        hyp = self.sbool(lem['stmt'], st, {var: VInt(k)})
        step_st = st.copy()
        step_st.assume(k >= base, hyp)
        for m in lem.get('mention', []):
            # ground terms the solver should know about (they trigger the unfolding axioms of ghost functions)
            t = self.sev(m, step_st, {var: VInt(k)}).term
            step_st.assume(z3.Function('mention!%s' % t.sort().name(), t.sort(), B)(t))
        if lem.get('upto') is not None:
            step_st.assume(k < to_int(self.sev(lem['upto'], st)))
        self.oblige(step_st, 'lemma-%s/step' % name, self.sbool(lem['stmt'], st, {var: VInt(k + 1)}), 0)
        q = fresh(var, I)
        body = self.sbool(lem['stmt'], st, {var: VInt(q)})
        guard = q >= base
        if lem.get('upto') is not None:
            guard = z3.And(guard, q <= to_int(self.sev(lem['upto'], st)))
        pats = None
        if lem.get('trigger'):
            pats = [self.sev(lem['trigger'], st, {var: VInt(q)}).term]
        st.assume(z3.ForAll([q], z3.Implies(guard, body), patterns=pats) if pats
                  else z3.ForAll([q], z3.Implies(guard, body)), tag='lemma/' + name)


import itertools as _it
_gc = _it.count()


def _in_state(entry, ref, eng, post):
    """re-allocate the entry contents of a node inside `post` so that both can be compared"""
    n0 = entry.heap[ref.nid]
    return post.alloc(n0)
