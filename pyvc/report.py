"""Collecting results of one check run, matching them against the committed
known-findings file, writing evidence and replay files, exit codes.

exit 0  every obligation discharged / every bounded contract evaluation passed
        (re-observed known findings aside)
exit 1  a violation; line ``VIOLATION property=<id> replay=<path>``
exit 3  the checker is broken or undecided (never mapped to a violation)
"""
import json
import os
import re
import sys
import time

ROOT = os.path.dirname(os.path.dirname(os.path.abspath(__file__)))
EVIDENCE_DIR = os.path.join(ROOT, 'evidence')
REPLAY_DIR = os.path.join(ROOT, 'replay')
KNOWN = os.path.join(ROOT, 'known_findings.json')
BASELINE = os.path.join(ROOT, 'proof_baseline.json')


def slug(s, n=80):
    return re.sub(r'[^A-Za-z0-9_.-]+', '-', s).strip('-')[:n]


def jsonable(x, depth=0):
    import numpy as np
    if depth > 8:
        return repr(x)
    if isinstance(x, (str, int, float, bool)) or x is None:
        if isinstance(x, float) and (x != x or x in (float('inf'), float('-inf'))):
            return repr(x)
        return x
    if isinstance(x, dict):
        return {str(k): jsonable(v, depth + 1) for k, v in x.items()}
    if isinstance(x, (list, tuple, set, frozenset)):
        return [jsonable(v, depth + 1) for v in x]
    if isinstance(x, np.ndarray):
        return jsonable(x.tolist(), depth + 1)
    if isinstance(x, np.generic):
        return jsonable(x.item(), depth + 1)
    return repr(x)


class Obligation:
    __slots__ = ('name', 'status', 'solver', 'secs', 'tier', 'fn', 'detail', 'fn_hash')

    def __init__(self, name, status, solver='', secs=0.0, tier='P', fn='', detail='', fn_hash=''):
        self.name, self.status, self.solver, self.secs = name, status, solver, secs
        self.tier, self.fn, self.detail, self.fn_hash = tier, fn, detail, fn_hash


class Violation:
    def __init__(self, obligation, witness_class, witness, expected=None, observed=None,
                 replay=None, found_input=True, solver_output=None, tier='B'):
        self.obligation = obligation
        self.witness_class = witness_class
        self.witness = witness
        self.expected, self.observed = expected, observed
        self.replay = replay            # {'module':..., 'case':...} re-executable description
        self.found_input = found_input
        self.solver_output = solver_output
        self.tier = tier
        self.count = 1


class Scope:
    """one bounded contract-evaluation scope"""
    def __init__(self, rep, name, bound):
        self.rep, self.name, self.bound = rep, name, bound
        self.evaluations = 0
        self.nontrivial = set()
        self.samples = []
        self.exhaustive = None
        self.secs = 0.0
        self._t0 = time.time()

    def ok(self, key=None, nontrivial=True, sample=None):
        self.evaluations += 1
        if nontrivial and key is not None:
            self.nontrivial.add(hash(key))
        if sample is not None and len(self.samples) < 3:
            self.samples.append(sample)

    def count(self, n=1):
        self.evaluations += n

    def fail(self, clause, witness_class, witness, expected=None, observed=None, replay=None):
        self.evaluations += 1
        self.rep.violation('%s/%s' % (self.name, clause), witness_class, witness, expected, observed,
                           replay=replay, tier='B')

    def done(self, exhaustive=None):
        self.exhaustive = exhaustive
        self.secs = time.time() - self._t0


class Report:
    def __init__(self, pid, tier='quick', seed=0, level='other'):
        self.pid, self.tier, self.seed, self.level = pid, tier, seed, level
        self.t0 = time.time()
        self.obligations = []
        self.functions = []           # {'function','tier','hash','obligations','discharged'}
        self.scopes = []
        self.violations = {}          # (obligation, witness_class) -> Violation
        self.assumptions = []
        self.trusted = []
        self.notes = {}
        self.errors = []              # checker problems -> exit 3
        self.undecided = []
        self.explanation = ''
        self.checker_cmd = './check %s --tier %s' % (pid, tier)
        self.lines = []

    # ---- deductive -------------------------------------------------------
    def add_obligation(self, ob):
        self.obligations.append(ob)

    def add_function(self, rel, qualname, tier, fn_hash, n_ob, n_ok, secs, backend):
        self.functions.append({'function': '%s::%s' % (rel, qualname), 'tier': tier, 'hash': fn_hash,
                               'obligations': n_ob, 'discharged': n_ok, 'solver_s': round(secs, 3),
                               'backends': backend})

    # ---- bounded ---------------------------------------------------------
    def scope(self, name, bound):
        s = Scope(self, name, bound)
        self.scopes.append(s)
        return s

    # ---- common ----------------------------------------------------------
    def violation(self, obligation, witness_class, witness, expected=None, observed=None,
                  replay=None, found_input=True, solver_output=None, tier='B'):
        key = (obligation, witness_class)
        if key in self.violations:
            self.violations[key].count += 1
            return
        self.violations[key] = Violation(obligation, witness_class, witness, expected, observed,
                                         replay, found_input, solver_output, tier)

    def assume(self, *texts):
        for t in texts:
            if t not in self.assumptions:
                self.assumptions.append(t)

    def trust(self, *texts):
        for t in texts:
            if t not in self.trusted:
                self.trusted.append(t)

    def error(self, text):
        self.errors.append(text)

    def out(self, line):
        self.lines.append(line)
        print(line, flush=True)

    # ---- finish ----------------------------------------------------------
    def _known(self):
        try:
            with open(KNOWN) as fh:
                data = json.load(fh)
        except FileNotFoundError:
            return []
        return [e for e in data.get('findings', []) if e.get('property') == self.pid]

    def _deductive_verdicts(self):
        """failed / undischarged obligations -> violations or 'undecided' (DESIGN.md 6)"""
        bounded = [v for v in self.violations.values() if v.tier == 'B']
        for f in getattr(self, 'pending_failed', []):
            base = f.get('baseline')
            changed = base is not None and base.get('hash') != f['hash']
            if f['status'] == 'failed':
                # the solver produced a counter-model of the verification condition
                rp = f.get('replayed')
                self.violation(f['name'], 'deductive', f.get('model'), 'obligation discharged',
                               'counter-model found by %s' % f.get('solver', 'solver'),
                               replay={'kind': 'obligation', 'contract': f['key'], 'native_replay': rp,
                                       'related_bounded_witness': jsonable(bounded[0].witness) if bounded else None,
                                       'related_bounded_replay': jsonable(bounded[0].replay) if bounded else None,
                                       'related_bounded_obligation': bounded[0].obligation if bounded else None},
                               found_input=bool(rp and rp.get('confirmed')) or bool(bounded),
                               solver_output=f.get('reason') or 'sat', tier=f.get('tier', 'P'))
            elif changed:
                # discharged for a different function text in the committed baseline, not dischargeable now
                self.violation(f['name'], 'deductive', None, 'obligation discharged (as in proof_baseline.json for '
                               'function text %s)' % base.get('hash'),
                               'undischarged for function text %s: %s' % (f['hash'], f.get('reason') or 'unknown'),
                               replay={'kind': 'obligation', 'contract': f['key'],
                                       'related_bounded_witness': jsonable(bounded[0].witness) if bounded else None,
                                       'related_bounded_replay': jsonable(bounded[0].replay) if bounded else None,
                                       'related_bounded_obligation': bounded[0].obligation if bounded else None},
                               found_input=bool(bounded), solver_output=f.get('reason') or 'unknown/timeout', tier=f.get('tier', 'P'))
            else:
                # unchanged function text (or never proved): solver instability / engine limit, not a violation
                self.undecided.append((f['name'], f.get('reason') or 'unknown'))

    def finish(self):
        self._deductive_verdicts()
        known = [e for e in self._known() if e.get('status') == 'known']
        new, reobserved = [], []
        for key, v in self.violations.items():
            match = None
            for e in known:
                if e.get('obligation') == v.obligation and e.get('witness_class') == v.witness_class:
                    match = e
                    break
            if match:
                reobserved.append((match, v))
            else:
                new.append(v)
        os.makedirs(REPLAY_DIR, exist_ok=True)
        os.makedirs(EVIDENCE_DIR, exist_ok=True)
        for e, v in reobserved:
            self.out('KNOWN-FINDING: property=%s %s' % (self.pid, e.get('what', v.obligation)))
        new.sort(key=lambda v: (v.tier == 'B', v.obligation))
        for nv, v in enumerate(new):
            if nv == 12:
                self.out('  ... %d further violation groups are listed in the evidence file' % (len(new) - 12))
            path = os.path.join(REPLAY_DIR, '%s-%s.json' % (self.pid, slug(v.obligation + '-' + v.witness_class)))
            with open(path, 'w') as fh:
                json.dump({'property': self.pid, 'obligation': v.obligation,
                           'witness_class': v.witness_class, 'tier': v.tier,
                           'input': jsonable(v.witness), 'expected': jsonable(v.expected),
                           'observed': jsonable(v.observed), 'occurrences': v.count,
                           'replay': jsonable(v.replay), 'found_input': v.found_input,
                           'solver_output': v.solver_output,
                           'how': './check %s --replay %s' % (self.pid, path)}, fh, indent=1)
            if nv >= 12:
                continue
            self.out('VIOLATION property=%s replay=%s%s' % (
                self.pid, path, '' if v.found_input else ' no-failing-input-found'))
            self.out('  obligation=%s class=%s occurrences=%d' % (v.obligation, v.witness_class, v.count))
        for u in self.undecided:
            self.out('UNDECIDED property=%s obligation=%s reason=%s' % (self.pid, u[0], u[1]))
        for e in self.errors:
            self.out('CHECKER-ERROR property=%s %s' % (self.pid, e))
        code = 1 if new else (3 if (self.errors or self.undecided) else 0)
        self._write_evidence(new, reobserved, code)
        n_ob = len(self.obligations)
        n_ok = sum(1 for o in self.obligations if o.status == 'proved')
        ev = sum(s.evaluations for s in self.scopes)
        self.out('%s tier=%s obligations=%d discharged=%d bounded_evaluations=%d violations=%d known=%d exit=%d wall=%.1fs'
                 % (self.pid, self.tier, n_ob, n_ok, ev, len(new), len(reobserved), code, time.time() - self.t0))
        return code

    def _write_evidence(self, new, reobserved, code):
        obs = self.obligations
        n_ok = sum(1 for o in obs if o.status == 'proved')
        by_backend = {}
        for o in obs:
            if o.status == 'proved':
                by_backend[o.solver] = by_backend.get(o.solver, 0) + 1
        samples = []
        for o in obs[:3]:
            samples.append({'obligation': o.name, 'status': o.status, 'solver': o.solver, 'tier': o.tier})
        for o in obs:
            if o.status != 'proved' and len(samples) < 12:
                samples.append({'obligation': o.name, 'status': o.status, 'solver': o.solver, 'detail': o.detail})
        for s in self.scopes:
            for x in s.samples[:2]:
                samples.append({'bounded_scope': s.name, 'case': jsonable(x)})
        if not samples:
            samples.append({'note': 'no case recorded'})
        cov = {
            'evaluations': sum(s.evaluations for s in self.scopes),
            'distinct_nontrivial': sum(len(s.nontrivial) for s in self.scopes),
            'rule': 'bounded tier: every enumerated (state, argument) case is one evaluation of the sidecar '
                    'contract on the real function; a case is non-trivial when the operation has an observable '
                    'effect by the scope\'s own rule and distinct by the hash of its (state, arguments) key. '
                    'Deductive tier: counted separately under obligations/discharged.',
            'samples': samples,
            'obligations': len(obs),
            'discharged': n_ok,
            'obligations_tier_P': sum(1 for o in obs if o.tier == 'P'),
            'obligations_tier_A': sum(1 for o in obs if o.tier == 'A'),
            'discharged_by_backend': by_backend,
            'solver_s': round(sum(o.secs for o in obs), 3),
            'checker_cmd': self.checker_cmd,
            'trusted_base': self.trusted,
            'functions_under_contract': self.functions,
            'bounded_scopes': [{'scope': s.name, 'bound': s.bound, 'evaluations': s.evaluations,
                                'distinct_nontrivial': len(s.nontrivial), 'exhaustive': s.exhaustive,
                                'wall_s': round(s.secs, 2)} for s in self.scopes],
            'explanation': self.explanation,
            'known_findings_reobserved': [e.get('what') for e, _ in reobserved],
            'new_violations': [{'obligation': v.obligation, 'class': v.witness_class, 'n': v.count} for v in new],
            'undecided': [list(u) for u in self.undecided],
            'checker_errors': self.errors,
            'exit_code': code,
        }
        cov.update(self.notes)
        ev = {'property_id': self.pid, 'tier': self.tier, 'seed': int(self.seed), 'level': self.level,
              'coverage': cov, 'assumptions': self.assumptions, 'wall_s': round(time.time() - self.t0, 2),
              'violations': len(new)}
        path = os.path.join(EVIDENCE_DIR, '%s.json' % self.pid)
        tmp = path + '.tmp%d' % os.getpid()
        with open(tmp, 'w') as fh:
            json.dump(jsonable(ev), fh, indent=1)
        os.replace(tmp, path)
