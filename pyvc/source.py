"""Loading the code under verification from /repo's working tree.

* ``load_py(relpath)``      -> (source text, ast.Module) of a .py file
* ``extract_pyx(relpath)``  -> Extracted(python_source, ctypes, dropped) : the
  mechanical de-cythonisation described in DESIGN.md 3.1.  Line numbers are
  preserved (dropped physical lines become blank lines).
* ``find_function(module_ast, qualname)`` with qualnames such as
  ``ErrorProfile.state.setter`` / ``Table.filter`` / ``_remove_rows_csr`` /
  ``Table._cast_metadata.<locals>.cast_metadata``.
* ``norm_hash(fn_ast)``     -> hash of the docstring-free AST (proof baseline)

Nothing here copies repository code into /verif: every call re-reads /repo.
"""
import ast
import hashlib
import os
import re

REPO = os.environ.get('VERIF_REPO', '/repo')


class ExtractError(Exception):
    pass


def repo_path(rel):
    return os.path.join(REPO, rel)


def read_text(rel):
    with open(repo_path(rel), encoding='utf-8') as fh:
        return fh.read()


_py_cache = {}


def load_py(rel):
    st = os.stat(repo_path(rel))
    key = (rel, st.st_mtime_ns, st.st_size)
    if key not in _py_cache:
        src = read_text(rel)
        _py_cache[key] = (src, ast.parse(src, filename=rel))
    return _py_cache[key]


# --------------------------------------------------------------------------
# .pyx extraction
# --------------------------------------------------------------------------

class Extracted:
    def __init__(self, rel, source, ctypes, dropped):
        self.rel = rel
        self.source = source          # python source, same line numbering
        self.ctypes = ctypes          # {function: {var: ctype}}
        self.dropped = dropped        # [(lineno, text, why)]
        self.tree = ast.parse(source, filename=rel)

    def namespace(self, extra=None):
        """Execute the extracted module (pure Python + numpy) and return its
        namespace; used for replay, fidelity runs and as the kernels the
        run-time harness installs in place of the stale .so."""
        ns = {'__name__': 'pyvc_extracted_' + re.sub(r'\W', '_', self.rel)}
        if extra:
            ns.update(extra)
        exec(compile(self.tree, 'extracted:' + self.rel, 'exec'), ns)
        return ns


_TYPE_RE = re.compile(
    r'^(?:cnp\.ndarray\[[^\]]*\]|[A-Za-z_][A-Za-z_0-9]*(?:\.[A-Za-z_][A-Za-z_0-9]*)*)$')
_IDENT = r'[A-Za-z_][A-Za-z_0-9]*'


def _split_top(s, sep=','):
    """split on sep at bracket depth 0"""
    out, depth, cur = [], 0, []
    for ch in s:
        if ch in '([{':
            depth += 1
        elif ch in ')]}':
            depth -= 1
        if ch == sep and depth == 0:
            out.append(''.join(cur))
            cur = []
        else:
            cur.append(ch)
    out.append(''.join(cur))
    return out


def _strip_comment(line):
    # the kernels contain no '#' inside string literals on declaration lines
    i = line.find('#')
    return line if i < 0 else line[:i]


def _parse_decl(text, where):
    """``[cdef] T a, b = e, c`` -> (ctype, [(name, init or None)])"""
    t = text.strip()
    if t.startswith('cdef '):
        t = t[5:].strip()
    # the type is either cnp.ndarray[...] or a dotted identifier
    m = re.match(r'^(cnp\.ndarray\[[^\]]*\]|' + _IDENT + r'(?:\.' + _IDENT + r')*)\s+(.*)$', t, re.S)
    if not m:
        raise ExtractError('%s: unsupported cdef form: %r' % (where, text))
    ctype, rest = m.group(1), m.group(2)
    decls = []
    for part in _split_top(rest):
        part = part.strip()
        if not part:
            raise ExtractError('%s: empty declarator in %r' % (where, text))
        pe = _split_top(part, '=')
        if len(pe) > 1:
            name, init = pe[0].strip(), '='.join(pe[1:]).strip()
        else:
            name, init = part, None
        if not re.fullmatch(_IDENT, name):
            raise ExtractError('%s: bad declarator %r in %r' % (where, part, text))
        decls.append((name, init))
    return ctype, decls


def _parse_header(text, where):
    """``cdef [rettype] name(params):`` / ``def name(params):`` -> def line"""
    t = ' '.join(x.strip() for x in text.replace('\\\n', ' ').split('\n')).strip()
    m = re.match(r'^(cdef|cpdef|def)\s+(.*)\)\s*:\s*$', t, re.S)
    if not m:
        raise ExtractError('%s: unsupported function header %r' % (where, text))
    kind, body = m.group(1), m.group(2)
    # find the '(' at bracket depth 0 ([..] of a return type is depth>0)
    depth = 0
    pos = None
    for i, ch in enumerate(body):
        if ch == '[':
            depth += 1
        elif ch == ']':
            depth -= 1
        elif ch == '(' and depth == 0:
            pos = i
            break
    if pos is None:
        raise ExtractError('%s: no parameter list in %r' % (where, text))
    before, params = body[:pos].strip(), body[pos + 1:]
    mname = re.search(r'(' + _IDENT + r')$', before)
    if not mname:
        raise ExtractError('%s: no function name in %r' % (where, text))
    name = mname.group(1)
    rettype = before[:mname.start()].strip() or None
    if kind == 'def' and rettype:
        raise ExtractError('%s: def with return type %r' % (where, text))
    names, types = [], {}
    for p in _split_top(params):
        p = p.strip()
        if not p:
            continue
        default = None
        pe = _split_top(p, '=')
        if len(pe) > 1:
            p, default = pe[0].strip(), '='.join(pe[1:]).strip()
        mp = re.match(r'^(?:(.*?)\s+)?(\*{0,2}' + _IDENT + r')$', p, re.S)
        if not mp:
            raise ExtractError('%s: bad parameter %r' % (where, p))
        ptype, pname = mp.group(1), mp.group(2)
        if ptype:
            ptype = ptype.strip()
            if not _TYPE_RE.match(ptype):
                raise ExtractError('%s: bad parameter type %r' % (where, ptype))
            types[pname] = ptype
        names.append(pname if default is None else '%s=%s' % (pname, default))
    if rettype:
        types['return'] = rettype
    return name, 'def %s(%s):' % (name, ', '.join(names)), types


def extract_pyx(rel):
    src = read_text(rel)
    lines = src.split('\n')
    out = [''] * len(lines)
    ctypes = {}
    dropped = []
    cur_fn = None
    i = 0
    n = len(lines)

    def indent_of(s):
        return len(s) - len(s.lstrip(' '))

    def logical(i):
        """gather a logical line starting at i: backslash continuation or
        open brackets"""
        j = i
        buf = []
        depth = 0
        while True:
            raw = _strip_comment(lines[j]).rstrip()
            cont = raw.endswith('\\')
            if cont:
                raw = raw[:-1]
            buf.append(raw)
            for ch in raw:
                if ch in '([{':
                    depth += 1
                elif ch in ')]}':
                    depth -= 1
            if not cont and depth <= 0:
                break
            j += 1
            if j >= n:
                raise ExtractError('%s:%d: unterminated logical line' % (rel, i + 1))
        return j, ' '.join(b.strip() if k else b.rstrip() for k, b in enumerate(buf))

    def emit_decl(i, j, text, ind):
        ctype, decls = _parse_decl(text, '%s:%d' % (rel, i + 1))
        if cur_fn is None:
            raise ExtractError('%s:%d: cdef outside a function' % (rel, i + 1))
        assigns = []
        for name, init in decls:
            ctypes[cur_fn][name] = ctype
            if init is not None:
                assigns.append('%s = %s' % (name, init))
        out[i] = ' ' * ind + '; '.join(assigns) if assigns else ''
        dropped.append((i + 1, text.strip(), 'C declaration: types recorded, initialisers kept'))

    in_doc = None
    while i < n:
        line = lines[i]
        s = line.strip()
        # docstrings / multi-line strings are copied verbatim
        if in_doc:
            out[i] = line
            if in_doc in s:
                in_doc = None
            i += 1
            continue
        if (s.startswith('"""') or s.startswith("'''")):
            q = s[:3]
            out[i] = line
            if not (len(s) >= 6 and s.endswith(q)) and s.count(q) == 1:
                in_doc = q
            i += 1
            continue
        if re.match(r'^\s*cimport\s', line) or re.match(r'^\s*from\s+\S+\s+cimport\s', line):
            dropped.append((i + 1, s, 'cimport'))
            i += 1
            continue
        if s == 'cnp.import_array()':
            dropped.append((i + 1, s, 'numpy C-API initialisation'))
            i += 1
            continue
        ind = indent_of(line)
        if re.match(r'^(cdef|cpdef)\s', s) and ind == 0 or (re.match(r'^def\s', s) and ind == 0):
            # function header, possibly spanning lines
            j, _ = logical(i)
            header_text = '\n'.join(_strip_comment(x) for x in lines[i:j + 1])
            if not header_text.rstrip().endswith(':'):
                raise ExtractError('%s:%d: header does not end in colon' % (rel, i + 1))
            name, defline, types = _parse_header(header_text, '%s:%d' % (rel, i + 1))
            cur_fn = name
            ctypes[name] = dict(types)
            out[i] = defline
            if s.startswith('cdef') or s.startswith('cpdef') or types:
                dropped.append((i + 1, ' '.join(header_text.split()), 'C signature: types recorded'))
            i = j + 1
            continue
        if s == 'cdef:':
            dropped.append((i + 1, s, 'cdef block header'))
            base = ind
            i += 1
            while i < n and (not lines[i].strip() or indent_of(lines[i]) > base):
                if not lines[i].strip() or lines[i].strip().startswith('#'):
                    out[i] = lines[i]
                    i += 1
                    continue
                j, text = logical(i)
                emit_decl(i, j, text, base)
                i = j + 1
            continue
        if re.match(r'^cdef\s', s):
            j, text = logical(i)
            emit_decl(i, j, text, ind)
            i = j + 1
            continue
        if 'cdef' in _strip_comment(line).split():
            raise ExtractError('%s:%d: cdef form outside the extractor rules: %r' % (rel, i + 1, line))
        out[i] = line
        i += 1
    source = '\n'.join(out)
    try:
        ex = Extracted(rel, source, ctypes, dropped)
    except SyntaxError as e:
        raise ExtractError('%s: extracted text is not Python: %s' % (rel, e))
    return ex


# --------------------------------------------------------------------------
# function lookup
# --------------------------------------------------------------------------

def strip_docstrings(node):
    node = ast.parse(ast.unparse(node)) if not isinstance(node, ast.AST) else node
    for n in ast.walk(node):
        if isinstance(n, (ast.FunctionDef, ast.ClassDef, ast.Module, ast.AsyncFunctionDef)):
            if (n.body and isinstance(n.body[0], ast.Expr)
                    and isinstance(n.body[0].value, ast.Constant)
                    and isinstance(n.body[0].value.value, str)):
                n.body = n.body[1:] or [ast.Pass()]
    return node


def find_function(tree, qualname):
    """qualname: dotted path through classes/functions; property setters are
    ``Class.prop.setter``; getters ``Class.prop`` (first def with that name
    decorated by ``property``)."""
    parts = qualname.split('.')
    body = tree.body
    node = None
    k = 0
    while k < len(parts):
        p = parts[k]
        if p == '<locals>':
            k += 1
            continue
        want_setter = (k + 1 < len(parts) and parts[k + 1] == 'setter')
        cands = [n for n in body
                 if isinstance(n, (ast.FunctionDef, ast.ClassDef)) and n.name == p]
        if want_setter:
            cands = [n for n in cands if isinstance(n, ast.FunctionDef) and any(
                isinstance(d, ast.Attribute) and d.attr == 'setter' for d in n.decorator_list)]
            k += 1
        elif len(cands) > 1:
            cands = [n for n in cands if not (isinstance(n, ast.FunctionDef) and any(
                isinstance(d, ast.Attribute) and d.attr == 'setter' for d in n.decorator_list))]
        if not cands:
            return None
        node = cands[0]
        body = node.body
        k += 1
    return node


def norm_hash(fn):
    import copy
    c = copy.deepcopy(fn)
    strip_docstrings(c)
    return hashlib.sha256(ast.dump(c, include_attributes=False).encode()).hexdigest()[:16]


def function_source(rel, qualname):
    """(ast node, hash) of a function from a .py or .pyx file in /repo."""
    if rel.endswith('.pyx'):
        tree = extract_pyx(rel).tree
    else:
        tree = load_py(rel)[1]
    fn = find_function(tree, qualname)
    if fn is None:
        return None, None
    return fn, norm_hash(fn)
