"""Driver of the deductive tier: contracts -> obligations -> solver portfolio ->
report.  ``run_property(rep, pid)`` verifies every contract registered for a
property against /repo's current source."""
import importlib
import json
import os
import sys
import time
import traceback

import z3

from . import smt, source
from .engine import Contract
from .exec import Exec
from .values import EngineError
from .report import Obligation as RepOb, BASELINE

CONTRACT_MODULES = ['contracts.idorder', 'contracts.filter_kernels', 'contracts.transform_kernel', 'contracts.err',
                    'contracts.validator', 'contracts.subsample_kernels',
                    'contracts.table_methods', 'contracts.util_stats', 'contracts.sparse_converters']

REGISTRY = {}
WORLDS = {}     # rel -> world factory
POSTHOOKS = {}  # contract key -> callable(model dict) -> replay info


def contract(rel, qualname, **kw):
    c = Contract(rel, qualname, **kw)
    REGISTRY[c.key] = c
    return c


def world_for(rel, factory):
    WORLDS[rel] = factory


_loaded = False


def load_contracts():
    global _loaded
    if _loaded:
        return
    for m in CONTRACT_MODULES:
        try:
            importlib.import_module(m)
        except ModuleNotFoundError as e:
            if m.split('.')[-1] not in str(e):
                raise
    for k, c in REGISTRY.items():
        # a contract whose postconditions speak about `result` needs a `returns` type, or its callers cannot use it
        if c.returns is None and not c.inline and not c.extra.get('inline_at_calls') and any('result' in e for e in c.ensures):
            raise RuntimeError('%s: ensures mention `result` but the contract declares no `returns` type' % k)
    _loaded = True


def module_tree(rel):
    if rel.endswith('.pyx'):
        ex = source.extract_pyx(rel)
        return ex.tree, ex.ctypes
    return source.load_py(rel)[1], {}


def context_hash(tree, qualname):
    """module-level constants and the class-level assignments of the function's class: obligations depend on
    them although they are outside the function text"""
    import ast, hashlib
    parts = []
    cls = qualname.split('.')[0] if '.' in qualname else None
    for n in tree.body:
        if isinstance(n, ast.Assign):
            parts.append(ast.dump(n))
        elif isinstance(n, ast.ClassDef) and n.name == cls:
            for m in n.body:
                if isinstance(m, ast.Assign):
                    parts.append(ast.dump(m))
    return hashlib.sha256('\n'.join(parts).encode()).hexdigest()[:8]


def verify_contract(c):
    """-> (obligations, meta) ; raises EngineError when outside the subset"""
    from .world import World
    tree, ctypes = module_tree(c.rel)
    fnode = source.find_function(tree, c.qualname)
    if fnode is None:
        raise EngineError('%s: function not found in /repo (renamed or removed): re-bind the contract' % c.key)
    factory = WORLDS.get(c.rel, World)
    world = factory(c.rel, tree, REGISTRY, ctypes)
    eng = Exec(c.rel, tree, REGISTRY, ctypes, world)
    obs = eng.verify(c, fnode)
    meta = {'hash': source.norm_hash(fnode) + '.' + context_hash(tree, c.qualname), 'inlined': sorted(eng.inlined),
            'callees': sorted(eng.used_contracts),
            'assumed': sorted(world.used), 'paths': eng.stats['paths']}
    for key in sorted(eng.inlined):
        rel2, q2 = key.split('::')
        t2, _ = module_tree(rel2)
        f2 = source.find_function(t2, q2)
        meta['hash'] += '+' + (source.norm_hash(f2) if f2 is not None else '?')
    return obs, meta


def noline(name):
    """obligation name without its @L<line> suffix: line numbers shift when code above is edited"""
    import re
    return re.sub(r'@L\d+$', '', name)


def baseline():
    try:
        with open(BASELINE) as fh:
            return json.load(fh)
    except FileNotFoundError:
        return {}


def _gen_worker(key):
    """generate the obligations of one contract (own process: z3 terms do not cross process boundaries,
    SMT-LIB text does)"""
    c = REGISTRY[key]
    t0 = time.time()
    try:
        obs, meta = verify_contract(c)
    except EngineError as e:
        return key, str(e), {}, [], 0.0
    except Exception:
        return key, 'engine crash: ' + traceback.format_exc(limit=8), {}, [], 0.0
    bg = smt.background()
    names = {}
    out = []
    for o in obs:
        k = names.get(o.name, 0)
        names[o.name] = k + 1
        inst = '%s#%d' % (o.name, k)
        if '/sentinel/' in o.name:
            out.append((o.name, inst, smt.Query(inst, bg + o.hyps, o.goal).smt2, True))
        elif z3.is_true(o.goal):
            out.append((o.name, inst, None, False))
        else:
            out.append((o.name, inst, smt.Query(inst, bg + o.hyps, o.goal).smt2, False))
    return key, None, meta, out, time.time() - t0


class _Q:
    def __init__(self, name, smt2):
        self.name, self.smt2 = name, smt2
        self.qf = 'forall' not in smt2 and 'exists' not in smt2


def prove_contracts(keys, budget_s=10.0, procs=None, recheck=False):
    """verify the named contracts; returns per-contract results"""
    import multiprocessing as mp
    load_contracts()
    results = {}
    queries = []
    sentinels = []
    procs = procs or int(os.environ.get('PYVC_PROCS', 0)) or min(16, os.cpu_count() or 1)
    if len(keys) > 1 and procs > 1:
        with mp.get_context('fork').Pool(min(procs, len(keys))) as pool:
            gen = pool.map(_gen_worker, keys, chunksize=1)
    else:
        gen = [_gen_worker(k) for k in keys]
    for key, err, meta, obs, gen_s in gen:
        if err:
            results[key] = {'error': err, 'obligations': [], 'meta': {}}
            continue
        results[key] = {'error': None, 'meta': meta, 'gen_s': gen_s, 'obligations': []}
        for name, inst, smt2, is_sentinel in obs:
            if is_sentinel:
                sentinels.append((key, name, inst, _Q(inst, smt2)))
            else:
                queries.append((key, name, inst, _Q(inst, smt2) if smt2 is not None else None))
    todo = [q[3] for q in queries if q[3] is not None]
    solved = smt.discharge(todo, budget_s=budget_s, procs=procs) if todo else {}
    # vacuity: a sentinel `False` that is provable means contradictory requires / invariants / axioms
    if sentinels:
        # sentinels are expected to be *un*provable, so each one costs its whole budget: short in the quick tier
        sres = smt.discharge([q[3] for q in sentinels], budget_s=(0.5 if budget_s <= 10.0 else 2.0), procs=procs, want_model=False,
                             portfolio=False)
        for key, name, inst, q in sentinels:
            res = sres[inst][0]
            results[key].setdefault('sentinels', []).append((name, res))
            if res == 'unsat':
                results[key]['vacuous'] = results[key].get('vacuous', []) + [name]
    second = {}
    if recheck:
        # thorough tier: every query the primary solver discharged is handed to the two other solvers as well
        second = smt.recheck([q[3] for q in queries if q[3] is not None and solved[q[2]][0] == 'unsat'], procs=procs)
    for key, name, inst, q in queries:
        if inst in second:
            results[key].setdefault('recheck', []).append((name, second[inst]))
    for key, name, inst, q in queries:
        if q is None:
            results[key]['obligations'].append({'name': name, 'inst': inst, 'status': 'proved', 'solver': 'syntactic',
                                                'secs': 0.0, 'model': None, 'reason': ''})
            continue
        res, trail, model, reason = solved[inst]
        status = {'unsat': 'proved', 'sat': 'failed'}.get(res, 'unknown')
        if '/reachability/' in name and status != 'proved':
            status, reason, model = 'unknown', 'no normal exit of the function is reachable under its contract', None
        results[key]['obligations'].append({'name': name, 'inst': inst, 'status': status,
                                            'solver': trail[-1][0] if trail else '', 'trail': trail,
                                            'secs': sum(t[2] for t in trail), 'model': model, 'reason': reason,
                                            'qf': q.qf})
    return results


def aggregate(obs):
    """instances of the same obligation on different paths -> one obligation"""
    agg = {}
    for o in obs:
        a = agg.setdefault(o['name'], {'name': o['name'], 'status': 'proved', 'solver': set(), 'secs': 0.0,
                                       'instances': 0, 'model': None, 'reason': ''})
        a['instances'] += 1
        a['secs'] += o['secs']
        a['solver'].add(o['solver'])
        if o['status'] == 'failed':
            a['status'] = 'failed'
            a['model'] = a['model'] or o.get('model')
        elif o['status'] == 'unknown' and a['status'] != 'failed':
            a['status'] = 'unknown'
            a['reason'] = o.get('reason', '')
    return list(agg.values())


def contracts_for(pid):
    load_contracts()
    return [k for k, c in REGISTRY.items() if pid in c.props and not c.inline and c.kind != 'assumed']


def run_property(rep, pid, budget_s=None):
    """deductive part of a check"""
    keys = contracts_for(pid)
    if not keys:
        rep.notes['deductive'] = 'no contract registered for this property'
        return
    budget_s = budget_s or (10.0 if rep.tier == 'quick' else 30.0)
    res = prove_contracts(keys, budget_s=budget_s, recheck=(rep.tier == 'thorough'))
    base = baseline()
    failed = []
    tally = {}
    for key in keys:
        for name, second in res[key].get('recheck', []):
            for solver, verdict in second.items():
                t = tally.setdefault(solver, {'unsat': 0, 'undecided': 0, 'sat': 0})
                t[verdict] += 1
                if verdict == 'sat':
                    # a second solver claims a counter-model for a query the primary solver proved: never silently ignored
                    rep.error('solver disagreement on %s: z3 5.1 proved it, %s answers sat' % (name, solver))
    if tally:
        rep.notes['independent_recheck'] = {
            'what': 'every query discharged by z3 5.1 was also given to the other installed solvers (5 s each); '
                    'undecided = timeout / unknown there, which does not weaken the primary verdict; sat would be '
                    'reported as a checker error',
            'by_solver': tally}
    for key in keys:
        c = REGISTRY[key]
        r = res[key]
        if r['error']:
            rep.error('%s: %s' % (key, r['error']))
            continue
        agg = aggregate(r['obligations'])
        if r.get('vacuous'):
            # a sentinel was provable on *some* path; harmless for infeasible paths that survived pruning, but
            # fatal when every instance of a sentinel is provable
            sn = {}
            for name, sres in r.get('sentinels', []):
                sn.setdefault(name, []).append(sres)
            dead = [n for n, rs in sn.items() if all(x == 'unsat' for x in rs)]
            if dead:
                rep.error('%s: vacuous - sentinel(s) provable: %s' % (key, ', '.join(d.split('::')[1] for d in dead)))
        n_ok = sum(1 for a in agg if a['status'] == 'proved')
        backends = {}
        for a in agg:
            if a['status'] == 'proved':
                for s in a['solver']:
                    backends[s] = backends.get(s, 0) + 1
        rep.add_function(c.rel, c.qualname, c.tier, r['meta']['hash'], len(agg), n_ok,
                         sum(a['secs'] for a in agg), backends)
        if not agg:
            rep.error('%s: zero obligations generated' % key)
        for a in agg:
            rep.add_obligation(RepOb(a['name'], a['status'], '+'.join(sorted(a['solver'])), a['secs'], c.tier,
                                     key, a['reason'], r['meta']['hash']))
            if a['status'] != 'proved':
                failed.append((key, a, r['meta']))
        for t in r['meta']['assumed']:
            from .world import ASSUMED
            rep.trust('%s: %s' % (t, ASSUMED.get(t, t)))
        for t in c.assumes:
            rep.trust(t)
        for ck in r['meta'].get('callees', []):
            # callees whose contract is assumed, not proved: their contract is part of the trusted base of this proof
            cc = REGISTRY.get(ck)
            if cc is not None and cc.kind == 'assumed':
                for t in (cc.assumes or ['assumed contract of %s: ensures %s' % (cc.qualname, '; '.join(cc.ensures))]):
                    rep.trust('assumed contract of %s - %s' % (cc.qualname, t))
    rep.pending_failed = getattr(rep, 'pending_failed', []) + [
        {'key': key, 'name': a['name'], 'status': a['status'], 'model': a['model'], 'reason': a['reason'],
         'hash': meta['hash'], 'baseline': base.get(noline(a['name'])), 'tier': REGISTRY[key].tier} for key, a, meta in failed]
    return res


def write_baseline(pids=None):
    """record which obligations are discharged for which function text"""
    load_contracts()
    keys = [k for k, c in REGISTRY.items() if not c.inline and c.kind != 'assumed'
            and (pids is None or set(pids) & set(c.props))]
    res = prove_contracts(keys, budget_s=30.0)
    base = {} if pids is None else baseline()
    for key in keys:
        r = res[key]
        if r['error']:
            print('ERROR', key, r['error'])
            continue
        for a in aggregate(r['obligations']):
            if a['status'] == 'proved':
                base[noline(a['name'])] = {'hash': r['meta']['hash'], 'solver': '+'.join(sorted(a['solver']))}
            else:
                print('NOT PROVED', a['name'], a['status'])
    with open(BASELINE, 'w') as fh:
        json.dump(base, fh, indent=0, sort_keys=True)
    print('baseline: %d obligations' % len(base))


def main():
    # python -m pyvc.prove <contract key substring> : debugging aid
    load_contracts()
    pat = sys.argv[1] if len(sys.argv) > 1 else ''
    if pat == '--baseline':
        write_baseline(sys.argv[2:] or None)
        sys.exit(0)
    keys = [k for k in REGISTRY if pat in k and not REGISTRY[k].inline and REGISTRY[k].kind != 'assumed']
    t0 = time.time()
    res = prove_contracts(keys, budget_s=float(os.environ.get('BUDGET', '10')))
    for key in keys:
        r = res[key]
        print('==', key, 'paths', r['meta'].get('paths'), 'gen %.1fs' % r.get('gen_s', 0))
        if r['error']:
            print('   ERROR', r['error'])
            continue
        sn = {}
        for name, sres in r.get('sentinels', []):
            sn.setdefault(name, []).append(sres)
        for name, rs in sn.items():
            print('   %s sentinel %-55s %s' % ('VACUOUS' if all(x == 'unsat' for x in rs) else 'live   ', name.split('::')[1], rs))
        for a in aggregate(r['obligations']):
            flag = {'proved': 'ok ', 'failed': 'FAIL', 'unknown': '??? '}[a['status']]
            print('   %s %-70s x%d %.2fs %s' % (flag, a['name'].split('::')[1], a['instances'], a['secs'], ','.join(sorted(a['solver']))))
            if a['status'] == 'failed' and a['model'] and os.environ.get('MODEL'):
                for k, v in sorted(a['model'].items()):
                    print('        ', k, '=', v[:100])
    print('total %.1fs' % (time.time() - t0))


if __name__ == '__main__':
    import pyvc.prove as _P
    _P.main()
