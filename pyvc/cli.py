"""./check <id> [--tier quick|thorough] [--replay file]"""
import argparse
import importlib
import json
import os
import sys
import traceback


def main(argv=None):
    ap = argparse.ArgumentParser(prog='check')
    ap.add_argument('pid')
    ap.add_argument('--tier', default=os.environ.get('VERIF_TIER', 'quick'), choices=['quick', 'thorough'])
    ap.add_argument('--replay', default=None)
    ap.add_argument('--only', default=None, help='comma list: deductive,bounded (debugging)')
    args = ap.parse_args(argv)
    seed = int(os.environ.get('VERIF_SEED', '0') or 0)
    from .report import Report
    pid = args.pid.upper()
    try:
        mod = importlib.import_module('props.%s' % pid)
    except ModuleNotFoundError as e:
        print('CHECKER-ERROR no check for property %s (%s)' % (pid, e))
        return 3
    if args.replay:
        with open(args.replay) as fh:
            case = json.load(fh)
        try:
            return int(mod.replay(case) or 0)
        except Exception:
            traceback.print_exc()
            return 3
    rep = Report(pid, args.tier, seed, level=getattr(mod, 'LEVEL', 'other'))
    rep.only = set(args.only.split(',')) if args.only else {'deductive', 'bounded'}
    try:
        mod.run(rep)
    except Exception:
        tb = traceback.format_exc()
        sys.stderr.write(tb)
        rep.error('check crashed: %s' % tb.strip().splitlines()[-1])
    return rep.finish()


if __name__ == '__main__':
    sys.exit(main())
