"""pyvc - a verification-condition generator for a subset of Python ("VPy").

Forward symbolic execution of the real function body (ast read from /repo),
path splitting at branches, loops cut by their invariants, calls replaced by
the callee's contract.  Every proof obligation becomes one small SMT query.
See DESIGN.md section 3 for the subset and the assumed semantics.
"""
import ast
import itertools

import z3

from . import smt
from .smt import I, R, B, Str, Cls
from .values import (SV, VInt, VReal, VBool, VStr, VNone, NONE, VTuple, VRef, VOpt, VCls, VExc, VFn, VVal,
                     VMod, VRange, VSlice, VInner, VDictVal, Arr, Dict, Obj, State, EngineError, fresh, SORTS)


class Result:
    """outcome of evaluating an expression or executing a statement"""
    __slots__ = ('st', 'val', 'exc', 'flow')

    def __init__(self, st, val=None, exc=None, flow='normal'):
        self.st, self.val, self.exc, self.flow = st, val, exc, flow


class Obligation:
    def __init__(self, name, hyps, goal, line=0, kind='', path=0):
        self.name, self.hyps, self.goal, self.line, self.kind, self.path = name, hyps, goal, line, kind, path


def z3sort_of(kind):
    if kind in SORTS:
        return SORTS[kind]
    raise EngineError('no SMT sort for kind %r' % kind)


def is_num(v):
    return v.kind in ('int', 'real', 'bool')


def to_int(v):
    if v.kind == 'int':
        return v.term
    if v.kind == 'bool':
        return z3.If(v.term, z3.IntVal(1), z3.IntVal(0))
    raise EngineError('expected int, got %s' % v.kind)


def to_real(v):
    if v.kind == 'real':
        return v.term
    if v.kind in ('int', 'bool'):
        return z3.ToReal(to_int(v))
    raise EngineError('expected number, got %s' % v.kind)


def mk(kind, term):
    return {'int': VInt, 'real': VReal, 'bool': VBool, 'str': VStr}[kind](term) if kind in ('int', 'real', 'bool', 'str') \
        else (VCls(term) if kind == 'cls' else VVal(term))


class Contract:
    def __init__(self, rel, qualname, **kw):
        self.rel, self.qualname = rel, qualname
        self.tier = kw.pop('tier', 'P')
        self.props = kw.pop('props', [])
        self.types = kw.pop('types', {})
        self.requires = kw.pop('requires', [])
        self.ensures = kw.pop('ensures', [])
        # postconditions about the function's own internal calls (ghost call records): proved for the function,
        # not visible to its callers
        self.internal = kw.pop('internal', [])
        self.raises = kw.pop('raises', {})        # ExcName -> [post conditions when raised]
        self.modifies = kw.pop('modifies', [])
        self.ghost = kw.pop('ghost', {})          # name -> dict(args, sort, axioms=[...])
        self.lemmas = kw.pop('lemmas', [])        # dict(name, var, stmt, base, trigger)
        self.loops = kw.pop('loops', {})          # ordinal -> dict(header, invariant, decreases, modifies)
        self.inline = kw.pop('inline', False)
        self.returns = kw.pop('returns', None)
        self.assumes = kw.pop('assumes', [])      # listed in the trusted base
        self.kind = kw.pop('kind', 'function')
        # variant: a second contract of the same function for another typing of its parameters (e.g. a parameter left
        # at its default); call sites use the contract without variant
        self.variant = kw.pop('variant', None)
        self.extra = kw
        self.key = '%s::%s' % (rel, qualname) + ('#' + self.variant if self.variant else '')


class Engine:
    def __init__(self, rel, tree, registry, ctypes=None, world=None):
        self.rel = rel
        self.tree = tree
        self.registry = registry        # key -> Contract
        self.ctypes = ctypes or {}
        self.world = world              # module-specific hooks (globals, classes, library)
        self.obligations = []
        self.axioms = []                # background hypotheses (ghost definitions, proved lemmas)
        self.ghosts = {}                # name -> (z3 func, arg kinds, ret kind)
        self.cur = None                 # contract under verification
        self.path_counter = itertools.count()
        self.loop_ordinals = {}
        self.assumed = []
        self.stats = {'paths': 0, 'pruned': 0}

    # ------------------------------------------------------------------
    # obligations
    # ------------------------------------------------------------------
    def oblige(self, st, kind, goal, line=0, extra_hyps=()):
        name = '%s::%s%s/%s@L%d' % (self.rel, self.cur.qualname, ('#' + self.cur.variant) if getattr(self.cur, 'variant', None) else '', kind, line)
        if z3.is_true(goal):
            # trivially true obligations are still counted (discharged syntactically)
            self.obligations.append(Obligation(name, [], z3.BoolVal(True), line, kind))
            return
        hidden = getattr(self, 'hidden', None)
        if hidden:
            # hypotheses a loop contract chose to hide from its body's obligations (dropping hypotheses is sound)
            pc = [t for k, t in enumerate(st.pc) if st.tags.get(k) not in hidden]
        else:
            pc = list(st.pc)
        self.obligations.append(Obligation(name, pc + list(extra_hyps), goal, line, kind))

    # ------------------------------------------------------------------
    # symbolic inputs
    # ------------------------------------------------------------------
    def make_input(self, st, name, ty):
        ty = ty.strip()
        if ty == 'Int':
            return VInt(fresh(name, I))
        if ty == 'Nat':
            t = fresh(name, I)
            st.assume(t >= 0)
            return VInt(t)
        if ty == 'Real':
            return VReal(fresh(name, R))
        if ty == 'Bool':
            return VBool(fresh(name, B))
        if ty == 'Str':
            return VStr(fresh(name, Str))
        if ty == 'Cls':
            return VCls(fresh(name, Cls))
        if ty == 'None':
            return NONE
        if ty.startswith('Opt[') and ty.endswith(']'):
            return VOpt(fresh(name + '_isnone', B), self.make_input(st, name, ty[4:-1]))
        if ty.startswith(('Arr[', 'List[', 'Tup[')) and ty.endswith(']'):
            flavour = {'Arr': 'ndarray', 'List': 'list', 'Tup': 'tuple'}[ty[:ty.index('[')]]
            ek = ty[ty.index('[') + 1:-1].lower()
            n = fresh(name + '_len', I)
            st.assume(n >= 0)
            a = fresh(name, z3.ArraySort(I, self.sort_of_kind(ek)))
            return st.alloc(Arr(ek, a, n, flavour))
        if ty.startswith('Dict[') and ty.endswith(']'):
            inner = ty[5:-1]
            k, v = inner.split(',', 1)
            k, v = k.strip().lower(), v.strip()
            ks = self.sort_of_kind(k)
            if v.startswith('Dict['):
                k2, v2 = v[5:-1].split(',', 1)
                k2, v2 = k2.strip().lower(), v2.strip().lower()
                k2s, v2s = self.sort_of_kind(k2), self.sort_of_kind(v2)
                return st.alloc(Dict(k, 'dict', fresh(name + '_dom', z3.ArraySort(ks, B)),
                                     fresh(name + '_val', z3.ArraySort(ks, z3.ArraySort(k2s, v2s))),
                                     idom=fresh(name + '_idom', z3.ArraySort(ks, z3.ArraySort(k2s, B))),
                                     inner=(k2, v2)))
            v = v.lower()
            return st.alloc(Dict(k, v, fresh(name + '_dom', z3.ArraySort(ks, B)),
                                 fresh(name + '_val', z3.ArraySort(ks, self.sort_of_kind(v)))))
        if ty == 'TupD':
            # a tuple of dicts (str -> dynamic value) held by value, e.g. per-id metadata after the cast to defaultdicts:
            # sound as long as the entries are pairwise distinct objects, which the cast establishes
            n = fresh(name + '_len', I)
            st.assume(n >= 0)
            return st.alloc(self.seq_of_dicts(st, name, n))
        if ty.startswith('Pair[') and ty.endswith(']'):
            # a tuple of fixed length with individually typed components
            parts, depth, cur = [], 0, ''
            for ch in ty[5:-1]:
                if ch == ',' and depth == 0:
                    parts.append(cur)
                    cur = ''
                else:
                    depth += ch == '['
                    depth -= ch == ']'
                    cur += ch
            parts.append(cur)
            return VTuple([self.make_input(st, '%s_%d' % (name, k), p) for k, p in enumerate(parts)])
        if ty == 'Val':
            return VVal(fresh(name, self.world.Val))
        if ty == 'Fn':
            return VFn('sym', term=fresh(name, self.world.Fn))
        if ty.startswith('Callback'):
            return self.world.make_callback(self, st, name, ty)
        if self.world is not None:
            v = self.world.make_input(self, st, name, ty)
            if v is not None:
                return v
        raise EngineError('unknown contract type %r for %s' % (ty, name))

    def seq_of_dicts(self, st, name, n, idom=None, val=None):
        V = self.world.Val
        dom = fresh(name + '_pos', z3.ArraySort(I, B))
        k = fresh('k', I)
        st.assume(z3.ForAll([k], dom[k] == z3.And(0 <= k, k < n), patterns=[dom[k]]))
        return Dict('int', 'dict', dom,
                    val if val is not None else fresh(name + '_val', z3.ArraySort(I, z3.ArraySort(Str, V))),
                    idom=idom if idom is not None else fresh(name + '_idom', z3.ArraySort(I, z3.ArraySort(Str, B))),
                    inner=('str', 'val'), seq=n)

    def sort_of_kind(self, k):
        if k in SORTS:
            return SORTS[k]
        if self.world is not None and k in getattr(self.world, 'extra_sorts', {}):
            return self.world.extra_sorts[k][0]
        if k == 'val':
            return self.world.Val
        if k == 'fn':
            return self.world.Fn
        raise EngineError('no sort for element kind %r' % k)

    def wrap(self, kind, term):
        if self.world is not None and kind in getattr(self.world, 'extra_sorts', {}):
            return self.world.extra_sorts[kind][1](term)
        if kind in ('int', 'real', 'bool', 'str'):
            return mk(kind, term)
        if kind == 'cls':
            return VCls(term)
        if kind == 'val':
            return VVal(term)
        if kind == 'fn':
            return VFn('sym', term=term)
        raise EngineError('cannot wrap kind %r' % kind)

    def unwrap(self, v, kind):
        """z3 term of value v coerced to element kind"""
        if self.world is not None and kind in getattr(self.world, 'extra_sorts', {}):
            return self.world.extra_sorts[kind][2](self, v)
        if kind == 'int':
            return to_int(v)
        if kind == 'real':
            return to_real(v)
        if kind == 'bool':
            if v.kind == 'bool':
                return v.term
            if v.kind == 'int':
                return v.term != 0
        if kind == 'str' and v.kind == 'str':
            return v.term
        if kind == 'cls' and v.kind == 'cls':
            return v.term
        if kind == 'val':
            return self.world.to_val(self, v)
        if kind == 'fn':
            return self.world.to_fn(self, v)
        raise EngineError('cannot store %s into container of %s' % (v.kind, kind))

    # ------------------------------------------------------------------
    # truthiness / comparisons / arithmetic (shared by code and spec mode)
    # ------------------------------------------------------------------
    def truth(self, st, v):
        if hasattr(v, 'sv_truth'):
            return v.sv_truth(self, st)
        k = v.kind
        if k == 'bool':
            return v.term
        if k == 'int':
            return v.term != 0
        if k == 'real':
            return v.term != 0
        if k == 'str':
            return smt.len_s(v.term) > 0
        if k == 'none':
            return z3.BoolVal(False)
        if k == 'tuple':
            return z3.BoolVal(len(v.items) > 0)
        if k == 'ref':
            n = st.node(v)
            if isinstance(n, Arr) and n.flavour in ('list', 'tuple'):
                return n.n > 0
            if isinstance(n, Dict):
                if n.nkeys is not None:
                    return n.nkeys > 0
                raise EngineError('truthiness of dict without size')
            if isinstance(n, Obj):
                return z3.BoolVal(True)
        if k in ('inner', 'dictval'):
            # a dict held by value is true when it has a key
            d = self.as_dict(st, v)
            kk = fresh('k', self.sort_of_kind(d[0]))
            return z3.Exists([kk], d[2][kk], patterns=[d[2][kk]])
        if k == 'opt':
            return z3.And(z3.Not(v.is_none), self.truth(st, v.val))
        if k in ('fn', 'cls', 'exc', 'mod'):
            return z3.BoolVal(True)
        if k == 'val':
            return self.world.val_truth(v.term)
        raise EngineError('truthiness of %s' % k)

    def binop(self, op, a, b, st=None):
        if hasattr(a, 'sv_binop'):
            return a.sv_binop(self, st, op, b, False)
        if hasattr(b, 'sv_binop'):
            return b.sv_binop(self, st, op, a, True)
        if isinstance(op, ast.Add) and a.kind == 'str' and b.kind == 'str':
            return VStr(smt.concat_s(a.term, b.term))
        if isinstance(op, ast.Add) and a.kind == 'tuple' and b.kind == 'tuple':
            return VTuple(a.items + b.items, a.islist)
        if isinstance(op, ast.Mult) and a.kind == 'tuple' and b.kind == 'int' and st is not None:
            # (None,) * len(ids): a constant sequence of symbolic length
            if len(a.items) == 1:
                item = a.items[0]
                kind = 'val' if item.kind in ('none', 'val') else item.kind
                srt = self.sort_of_kind(kind)
                arr = z3.K(I, self.unwrap(item, kind))
                return st.alloc(Arr(kind, arr, z3.If(b.term >= 0, b.term, 0), 'tuple'))
        if isinstance(op, ast.BitXor) and a.kind in ('bool', 'int') and b.kind in ('bool', 'int'):
            if a.kind == 'bool' and b.kind == 'bool':
                return VBool(z3.Xor(a.term, b.term))
            # 0/1 integers only (uint8 flags); anything else is outside the subset
            ta, tb = self.truth(None, a), self.truth(None, b)
            self._bit01 = True
            return VInt(z3.If(z3.Xor(ta, tb), z3.IntVal(1), z3.IntVal(0)))
        if isinstance(op, ast.Mod) and a.kind == 'str':
            # '%'-formatting: an opaque string constructor; the literal text before the first directive is kept, so
            # that a message is known to be non-empty
            v = self.formatted(a)
            v.fmt_template, v.fmt_args = (smt.lit_text(a.term) if a.kind == 'str' else None), b
            return v
        if not (is_num(a) and is_num(b)):
            raise EngineError('binary %s on %s, %s' % (type(op).__name__, a.kind, b.kind))
        real = a.kind == 'real' or b.kind == 'real' or isinstance(op, ast.Div)
        if real:
            x, y = to_real(a), to_real(b)
        else:
            x, y = to_int(a), to_int(b)
        if isinstance(op, ast.Add):
            r = x + y
        elif isinstance(op, ast.Sub):
            r = x - y
        elif isinstance(op, ast.Mult):
            r = x * y
        elif isinstance(op, ast.Div):
            r = x / y
        elif isinstance(op, ast.FloorDiv) and not real:
            # python floor division; divisor sign handled explicitly
            r = z3.If(y > 0, x / y, z3.If(x % y == 0, x / y, x / y - 1)) if not z3.is_int_value(y) or y.as_long() <= 0 else x / y
        elif isinstance(op, ast.Mod) and not real:
            r = x % y
        else:
            raise EngineError('unsupported operator %s' % type(op).__name__)
        return VReal(r) if real else VInt(r)

    def formatted(self, template):
        txt = smt.lit_text(template.term) if template.kind == 'str' else None
        prefix = txt.split('%')[0] if txt else ''
        if prefix:
            return VStr(smt.concat_s(smt.str_lit(prefix), fresh('fmt', Str)))
        return VStr(fresh('fmt', Str))

    def compare(self, st, op, a, b):
        """z3 Bool for a <op> b"""
        if hasattr(a, 'sv_compare') and not isinstance(op, (ast.In, ast.NotIn)):
            return a.sv_compare(self, st, op, b, False)
        if hasattr(b, 'sv_compare') and not isinstance(op, (ast.In, ast.NotIn)):
            return b.sv_compare(self, st, op, a, True)
        if isinstance(op, (ast.Is, ast.IsNot)):
            t = self.identical(st, a, b)
            return z3.Not(t) if isinstance(op, ast.IsNot) else t
        if isinstance(op, (ast.In, ast.NotIn)):
            t = self.contains(st, b, a)
            return z3.Not(t) if isinstance(op, ast.NotIn) else t
        if isinstance(op, (ast.Eq, ast.NotEq)):
            t = self.equal(st, a, b)
            return z3.Not(t) if isinstance(op, ast.NotEq) else t
        if a.kind == 'str' and b.kind == 'str':
            lt = {ast.Lt: lambda: smt.lt_s(a.term, b.term), ast.Gt: lambda: smt.lt_s(b.term, a.term),
                  ast.LtE: lambda: z3.Not(smt.lt_s(b.term, a.term)), ast.GtE: lambda: z3.Not(smt.lt_s(a.term, b.term))}
            return lt[type(op)]()
        if not (is_num(a) and is_num(b)):
            raise EngineError('ordering comparison of %s and %s' % (a.kind, b.kind))
        if a.kind == 'real' or b.kind == 'real':
            x, y = to_real(a), to_real(b)
        else:
            x, y = to_int(a), to_int(b)
        return {ast.Lt: x < y, ast.LtE: x <= y, ast.Gt: x > y, ast.GtE: x >= y}[type(op)]

    def identical(self, st, a, b):
        """z3 Bool for `a is b` (object identity; scalars by value)"""
        if a.kind == 'opt' and b.kind == 'opt':
            return z3.Or(z3.And(a.is_none, b.is_none), z3.And(z3.Not(a.is_none), z3.Not(b.is_none), self.identical(st, a.val, b.val)))
        if b.kind == 'opt':
            a, b = b, a
        if a.kind == 'opt':
            if b.kind == 'none':
                return a.is_none
            return z3.And(z3.Not(a.is_none), self.identical(st, a.val, b))
        if a.kind == 'none' or b.kind == 'none':
            other = b if a.kind == 'none' else a
            if other.kind == 'val':
                return self.world.val_is_none(other.term)
            return z3.BoolVal(a.kind == b.kind)
        if a.kind == 'ref' and b.kind == 'ref':
            return z3.BoolVal(a.nid == b.nid)
        if a.kind == b.kind and a.kind in ('bool', 'int', 'str', 'cls', 'val', 'real'):
            return a.term == b.term
        if a.kind != b.kind and 'ref' in (a.kind, b.kind):
            if {a.kind, b.kind} & {'dictval', 'arrval'}:
                raise EngineError('identity against a by-value snapshot: use oldref(...) instead of old(...)')
            return z3.BoolVal(False)
        if a.kind != b.kind:
            return z3.BoolVal(False)
        if a.kind == 'fn' and self.world is not None:
            # function objects: the same defunctionalised value
            try:
                return self.world.to_fn(self, a) == self.world.to_fn(self, b)
            except EngineError:
                pass
        raise EngineError('is-comparison of %s and %s' % (a.kind, b.kind))

    def equal(self, st, a, b):
        if hasattr(a, 'sv_compare'):
            return a.sv_compare(self, st, ast.Eq(), b, False)
        if hasattr(b, 'sv_compare'):
            return b.sv_compare(self, st, ast.Eq(), a, True)
        if a.kind == 'opt' or b.kind == 'opt':
            if a.kind != 'opt':
                a, b = b, a
            if b.kind == 'none':
                return a.is_none
            if b.kind == 'opt':
                return z3.And(a.is_none == b.is_none, z3.Or(a.is_none, self.equal(st, a.val, b.val)))
            return z3.And(z3.Not(a.is_none), self.equal(st, a.val, b))
        if a.kind == 'none' or b.kind == 'none':
            if a.kind == 'val':
                return self.world.val_is_none(a.term)
            if b.kind == 'val':
                return self.world.val_is_none(b.term)
            return z3.BoolVal(a.kind == b.kind)
        if is_num(a) and is_num(b):
            if a.kind == 'bool' and b.kind == 'bool':
                return a.term == b.term
            if a.kind == 'real' or b.kind == 'real':
                return to_real(a) == to_real(b)
            return to_int(a) == to_int(b)
        if a.kind == b.kind and a.kind in ('str', 'cls', 'val'):
            return a.term == b.term
        if a.kind == 'tuple' and b.kind == 'tuple':
            if len(a.items) != len(b.items):
                return z3.BoolVal(False)
            return z3.And([self.equal(st, x, y) for x, y in zip(a.items, b.items)] or [z3.BoolVal(True)])
        if a.kind == 'fn' and b.kind == 'fn':
            return self.world.to_fn(self, a) == self.world.to_fn(self, b)
        if a.kind == 'ghost' and b.kind == 'ghost':
            return a.term == b.term
        if a.kind == 'val' or b.kind == 'val':
            return self.world.to_val(self, a) == self.world.to_val(self, b)
        da, db = self.as_dict(st, a), self.as_dict(st, b)
        if da is not None and db is not None:
            if da[0] != db[0] or bool(da[5]) != bool(db[5]):
                raise EngineError('equality of dicts of different shapes')
            k = fresh('k', self.sort_of_kind(da[0]))
            if not da[5]:
                return z3.ForAll([k], z3.And(da[2][k] == db[2][k], z3.Implies(da[2][k], da[3][k] == db[3][k])))
            k2 = fresh('k2', self.sort_of_kind(da[5][0]))
            return z3.ForAll([k, k2], z3.And(
                da[2][k] == db[2][k],
                z3.Implies(da[2][k], z3.And(da[4][k][k2] == db[4][k][k2],
                                            z3.Implies(da[4][k][k2], da[3][k][k2] == db[3][k][k2])))))
        aa, ab = self.as_arr(st, a), self.as_arr(st, b)
        if aa is not None and ab is not None and aa[0] == ab[0]:
            k = fresh('k', I)
            return z3.And(aa[2] == ab[2], z3.ForAll([k], z3.Implies(z3.And(0 <= k, k < aa[2]), aa[1][k] == ab[1][k])))
        if ({a.kind, b.kind} & {'ref', 'arrval', 'dictval', 'arrT'}) and ({a.kind, b.kind} & {'int', 'real', 'bool', 'str', 'none'}):
            return z3.BoolVal(False)      # a container never equals a scalar
        if a.kind != b.kind:
            # values of different python types are unequal (int/real/bool handled above)
            if {a.kind, b.kind} <= {'str', 'int', 'real', 'bool', 'none', 'tuple', 'cls', 'exc'}:
                return z3.BoolVal(False)
        raise EngineError('equality of %s and %s' % (a.kind, b.kind))

    def as_dict(self, st, v):
        """(kkind, vkind, dom, val, idom, inner) of a dict reference or dict value"""
        if v.kind == 'ref' and st is not None and isinstance(st.node(v), Dict):
            n = st.node(v)
            return (n.kkind, n.vkind, n.dom, n.val, n.idom, n.inner)
        if v.kind == 'dictval':
            return (v.kkind, v.vkind, v.dom, v.val, getattr(v, 'idom', None), getattr(v, 'inner', None))
        if v.kind == 'inner' and st is not None:
            n = st.node(v.ref)
            return (n.inner[0], n.inner[1], n.idom[v.key], n.val[v.key], None, None)
        return None

    def as_arr(self, st, v):
        if v.kind == 'ref' and st is not None and isinstance(st.node(v), Arr):
            n = st.node(v)
            return (n.elem, n.a, n.n)
        if v.kind == 'arrval':
            return (v.elem, v.a, v.n)
        return None

    def contains(self, st, cont, x):
        if hasattr(cont, 'sv_contains'):
            return cont.sv_contains(self, st, x)
        if hasattr(x, 'sv_member_of'):
            r = x.sv_member_of(self, st, cont)
            if r is not None:
                return r
        if cont.kind == 'tuple':
            return z3.Or([self.equal(st, x, it) for it in cont.items] or [z3.BoolVal(False)])
        if cont.kind == 'ref':
            n = st.node(cont)
            if isinstance(n, Dict):
                return n.dom[self.unwrap(x, n.kkind)]
            if isinstance(n, Arr):
                # a canonical bound variable: two membership tests of the same element in the same sequence are the
                # same term (no instantiation needed to see that they agree)
                k = z3.Int('mem!k')
                return z3.Exists([k], z3.And(0 <= k, k < n.n, n.a[k] == self.unwrap(x, n.elem)), patterns=[n.a[k]])
            if isinstance(n, Obj):
                return self.world.obj_contains(self, st, cont, n, x)
        if cont.kind == 'inner':
            n = st.node(cont.ref)
            return n.idom[cont.key][self.unwrap(x, n.inner[0])]
        if cont.kind == 'dictval':
            return cont.dom[self.unwrap(x, cont.kkind)]
        if cont.kind == 'arrval':
            k = z3.Int('mem!k')
            return z3.Exists([k], z3.And(0 <= k, k < cont.n, cont.a[k] == self.unwrap(x, cont.elem)), patterns=[cont.a[k]])
        if cont.kind == 'range':
            xi = to_int(x)
            return z3.And(cont.lo <= xi, xi < cont.hi)
        if cont.kind in ('int', 'real', 'bool', 'none'):
            # spec expressions are total (as indexing is): membership in a scalar is some boolean, guarded by the
            # contract's implications
            return fresh('nomember', B)
        raise EngineError('membership test in %s' % cont.kind)

    # ------------------------------------------------------------------
    # spec-mode evaluation (contracts): single value, no forking, no obligations
    # ------------------------------------------------------------------
    def sev(self, e, st, bound=None):
        bound = bound or {}
        if isinstance(e, str):
            e = ast.parse(e.strip(), mode='eval').body
        m = getattr(self, 'sev_' + type(e).__name__, None)
        if m is None:
            raise EngineError('spec expression not supported: %s' % ast.dump(e)[:80])
        return m(e, st, bound)

    def sbool(self, e, st, bound=None):
        v = self.sev(e, st, bound)
        return self.truth(st, v)

    def sev_Constant(self, e, st, bound):
        return self.const(e.value)

    def const(self, c):
        if c is None:
            return NONE
        if isinstance(c, bool):
            return VBool(c)
        if isinstance(c, int):
            return VInt(c)
        if isinstance(c, float):
            return VReal(c)
        if isinstance(c, str):
            return VStr(c)
        raise EngineError('constant %r' % (c,))

    def sev_Name(self, e, st, bound):
        n = e.id
        if n in bound:
            return bound[n]
        if n in st.env:
            return st.env[n]
        if n in ('True', 'False'):
            return VBool(n == 'True')
        if n in st.globals:
            return st.globals[n]
        if self.world is not None:
            v = self.world.spec_name(self, st, n)
            if v is not None:
                return v
        raise EngineError('spec: unknown name %r' % n)

    def sev_Attribute(self, e, st, bound):
        base = self.sev(e.value, st, bound)
        return self.getattr_pure(st, base, e.attr)

    def getattr_pure(self, st, base, attr):
        if getattr(base, 'frozen', False):
            raise EngineError('attribute %r of old(object): select the field inside old(...)' % attr)
        if base.kind == 'ref':
            n = st.node(base)
            if isinstance(n, Obj):
                if attr in n.fields:
                    return n.fields[attr]
                if attr == 'shape' and '_shape' in n.fields:
                    return n.fields['_shape']
                if attr == 'T' and n.cls == 'CS':
                    return self.world.cs_transpose(self, st, base, n)
                v = self.world.obj_attr(self, st, base, n, attr) if self.world else None
                if v is not None:
                    return v
                if self.world is not None and self.world.has_method(n.cls, attr):
                    return VFn('method', recv=base, name=attr)
                raise EngineError('object %s has no field %r' % (n.cls, attr))
            if isinstance(n, Arr):
                if attr == 'size':
                    return VInt(n.n)
                if attr == 'shape':
                    return VTuple([VInt(n.n)])
                if attr == 'dtype':
                    return VStr('dtype:' + n.elem)
        if base.kind == 'mod' and base.name in ('np', 'numpy') and attr == 'inf':
            if self.world is not None:
                self.world.used.add('np.inf')
            return VReal(z3.Real('np_inf'))      # an unconstrained real constant: nothing is claimed about it
        if base.kind == 'mod':
            return VFn('builtin', name=base.name + '.' + attr)
        if base.kind == 'fn' and base.fk == 'builtin' and base.name.split('.')[0] in ('np', 'numpy', 'scipy'):
            return VFn('builtin', name=base.name + '.' + attr)      # sub-module: np.random.default_rng
        if base.kind == 'exc' and attr == 'args':
            return VTuple(base.args)
        if hasattr(base, 'sv_getattr'):
            try:
                return base.sv_getattr(self, st, attr)      # data attributes of an extension value
            except EngineError:
                pass
        return VFn('method', recv=base, name=attr)

    def sev_Subscript(self, e, st, bound):
        base = self.sev(e.value, st, bound)
        if isinstance(e.slice, ast.Slice):
            raise EngineError('spec: slices not supported')
        idx = self.sev(e.slice, st, bound)
        if base.kind in ('int', 'real', 'bool', 'none'):
            # spec expressions are total: indexing a scalar yields some real (guarded by the contract's implications)
            return VReal(fresh('noindex', R))
        return self.index_pure(st, base, idx)

    def index_pure(self, st, base, idx):
        if hasattr(base, 'sv_index_pure'):
            return base.sv_index_pure(self, st, idx)
        if base.kind == 'opt':
            return self.index_pure(st, base.val, idx)
        if base.kind == 'tuple':
            if idx.kind == 'int' and z3.is_int_value(z3.simplify(idx.term)):
                k = z3.simplify(idx.term).as_long()
                return base.items[k]
            # symbolic index into a concrete tuple: if-chain
            items = base.items
            if not items:
                raise EngineError('index into empty tuple')
            t = to_int(idx)
            n = len(items)
            t = z3.If(t < 0, t + n, t)
            kind = items[0].kind
            if all(i.kind == kind for i in items) and kind in ('int', 'real', 'bool', 'str'):
                r = items[-1].term
                for k in range(n - 2, -1, -1):
                    r = z3.If(t == k, items[k].term, r)
                return mk(kind, r)
            raise EngineError('symbolic index into heterogeneous tuple')
        if base.kind == 'ref':
            n = st.node(base)
            if isinstance(n, Arr):
                return self.wrap(n.elem, n.a[to_int(idx)])
            if isinstance(n, Dict):
                kt = self.unwrap(idx, n.kkind)
                if n.inner:
                    return VInner(base, kt)
                return self.wrap(n.vkind, n.val[kt])
        if base.kind == 'inner':
            n = st.node(base.ref)
            k2 = self.unwrap(idx, n.inner[0])
            return self.wrap(n.inner[1], n.val[base.key][k2])
        if base.kind == 'dictval':
            kt = self.unwrap(idx, base.kkind)
            if getattr(base, 'inner', None):
                return VDictVal(base.inner[0], base.inner[1], base.idom[kt], base.val[kt])
            return self.wrap(base.vkind, base.val[kt])
        if base.kind == 'arrval':
            return self.wrap(base.elem, base.a[to_int(idx)])
        raise EngineError('spec: cannot index %s' % base.kind)

    def sev_BoolOp(self, e, st, bound):
        ts = [self.sbool(v, st, bound) for v in e.values]
        return VBool(z3.And(ts) if isinstance(e.op, ast.And) else z3.Or(ts))

    def sev_UnaryOp(self, e, st, bound):
        v = self.sev(e.operand, st, bound)
        if isinstance(e.op, ast.Not):
            return VBool(z3.Not(self.truth(st, v)))
        if isinstance(e.op, ast.USub):
            return VReal(-v.term) if v.kind == 'real' else VInt(-to_int(v))
        raise EngineError('unary op')

    def sev_BinOp(self, e, st, bound):
        return self.binop(e.op, self.sev(e.left, st, bound), self.sev(e.right, st, bound), st)

    def sev_Compare(self, e, st, bound):
        left = self.sev(e.left, st, bound)
        ts = []
        for op, r in zip(e.ops, e.comparators):
            right = self.sev(r, st, bound)
            ts.append(self.compare(st, op, left, right))
            left = right
        return VBool(z3.And(ts) if len(ts) > 1 else ts[0])

    def sev_IfExp(self, e, st, bound):
        c = self.sbool(e.test, st, bound)
        a, b = self.sev(e.body, st, bound), self.sev(e.orelse, st, bound)
        return self.ite(c, a, b, st)

    def ite(self, c, a, b, st=None):
        if st is not None and a.kind in ('ref', 'dictval', 'arrval', 'inner') and b.kind in ('ref', 'dictval', 'arrval', 'inner'):
            from .world import VArrVal
            if a.kind == 'ref' and b.kind == 'ref' and a.nid == b.nid:
                return a
            da, db = self.as_dict(st, a), self.as_dict(st, b)
            if da is not None and db is not None and da[0] == db[0] and da[1] == db[1] and not da[5] and not db[5]:
                return VDictVal(da[0], da[1], z3.If(c, da[2], db[2]), z3.If(c, da[3], db[3]))
            aa, ab = self.as_arr(st, a), self.as_arr(st, b)
            if aa is not None and ab is not None and aa[0] == ab[0]:
                return VArrVal(aa[0], z3.If(c, aa[1], ab[1]), z3.If(c, aa[2], ab[2]))
        if a.kind == b.kind and a.kind in ('int', 'real', 'bool', 'str', 'cls', 'val'):
            return mk(a.kind, z3.If(c, a.term, b.term)) if a.kind != 'cls' else VCls(z3.If(c, a.term, b.term))
        if is_num(a) and is_num(b):
            if 'real' in (a.kind, b.kind):
                return VReal(z3.If(c, to_real(a), to_real(b)))
            return VInt(z3.If(c, to_int(a), to_int(b)))
        if a.kind == 'tuple' and b.kind == 'tuple' and len(a.items) == len(b.items):
            return VTuple([self.ite(c, x, y) for x, y in zip(a.items, b.items)])
        if a.kind == 'none' and b.kind == 'none':
            return NONE
        if a.kind == 'none':
            return VOpt(c, b)
        if b.kind == 'none':
            return VOpt(z3.Not(c), a)
        if a.kind == 'fn' and b.kind == 'fn':
            return VFn('sym', term=z3.If(c, self.world.to_fn(self, a), self.world.to_fn(self, b)))
        raise EngineError('if-expression with branches of kinds %s / %s' % (a.kind, b.kind))

    def sev_Tuple(self, e, st, bound):
        return VTuple([self.sev(x, st, bound) for x in e.elts])

    sev_List = sev_Tuple

    def sev_Call(self, e, st, bound):
        f = e.func
        if isinstance(f, ast.Name):
            n = f.id
            if n == 'old':
                # at function entry old(e) is e itself
                o = st.old if st.old is not None else st
                return self.freeze(o, self.sev(e.args[0], o, bound))
            if n == 'oldref':
                # identity of the object an expression referred to at entry (for `is` comparisons only)
                o = st.old if st.old is not None else st
                v = self.sev(e.args[0], o, bound)
                if v.kind == 'ref':
                    r = VRef(v.nid)
                    r.frozen = True
                    return r
                if v.kind == 'opt' and v.val.kind == 'ref':
                    r = VRef(v.val.nid)
                    r.frozen = True
                    return VOpt(v.is_none, r)
                return v
            if n == 'at':
                # at('label', expr): value at a named snapshot (loop entry)
                lab = e.args[0].value
                return self.freeze(st.marks[lab], self.sev(e.args[1], st.marks[lab], bound))
            if n == 'implies':
                a = self.sbool(e.args[0], st, bound)
                if z3.is_false(z3.simplify(a)):
                    return VBool(z3.BoolVal(True))
                try:
                    b = self.sbool(e.args[1], st, bound)
                except (EngineError, IndexError, KeyError, AttributeError):
                    # the consequent cannot even be stated here (e.g. it indexes a result that has another shape on
                    # this path): fine when the antecedent is impossible on this path, an error otherwise
                    if not bound and smt.quick_unsat(list(st.pc) + [a], full=True):
                        return VBool(z3.BoolVal(True))
                    if bound:
                        raise
                    # the antecedent may hold but the consequent speaks about a value of another shape: the clause
                    # can only hold if the antecedent does not (the obligation then fails instead of the checker)
                    return VBool(z3.Not(a))
                return VBool(z3.Implies(a, b))
            if n == 'iff':
                return VBool(self.sbool(e.args[0], st, bound) == self.sbool(e.args[1], st, bound))
            if n in ('all', 'any'):
                return self.quant(n, e.args[0], st, bound)
            if n == 'len':
                v = self.sev(e.args[0], st, bound)
                try:
                    return self.length(st, v)
                except EngineError:
                    # spec expressions are total: len() of a value without length is some integer
                    return VInt(fresh('nolen', I))
            if n == 'abs':
                v = self.sev(e.args[0], st, bound)
                return mk(v.kind, z3.If(v.term >= 0, v.term, -v.term))
            if n in ('min', 'max'):
                a, b = self.sev(e.args[0], st, bound), self.sev(e.args[1], st, bound)
                c = self.compare(st, ast.LtE() if n == 'min' else ast.GtE(), a, b)
                return self.ite(c, a, b)
            if n == 'bool':
                return VBool(self.sbool(e.args[0], st, bound))
            if n == 'isnone':
                v = self.sev(e.args[0], st, bound)
                return VBool(self.compare(st, ast.Is(), v, NONE))
            if n in ('keyat', 'posof'):
                # insertion order of a dict: keyat(d, i) = i-th inserted key, posof(d, k) = its position
                d = self.sev(e.args[0], st, bound)
                nd = st.node(d)
                if nd.keys is None:
                    raise EngineError('keyat/posof of a dict whose insertion order is not tracked')
                x = self.sev(e.args[1], st, bound)
                if n == 'keyat':
                    return self.wrap(nd.kkind, nd.keys[to_int(x)])
                return VInt(nd.pos[self.unwrap(x, nd.kkind)])
            if n == 'some':
                # the value of an optional (meaningful only under `not isnone(x)`, which the contract states)
                v = self.sev(e.args[0], st, bound)
                return v.val if v.kind == 'opt' else v
            if n == 'real':
                return VReal(to_real(self.sev(e.args[0], st, bound)))
            if n in self.ghosts:
                fn, argk, retk = self.ghosts[n]
                args = [self.unwrap(self.sev(a, st, bound), k) for a, k in zip(e.args, argk)]
                return self.wrap(retk, fn(*args))
            if self.world is not None:
                v = self.world.spec_call(self, st, n, e, bound)
                if v is not None:
                    return v
        if isinstance(f, ast.Attribute) and self.world is not None:
            v = self.world.spec_method(self, st, f, e, bound)
            if v is not None:
                return v
        raise EngineError('spec: call not supported: %s' % ast.unparse(e)[:80])

    def freeze(self, st, v):
        """by-value snapshot of a value read in another state (old / at)"""
        from .world import VArrVal
        if v.kind == 'ref':
            n = st.node(v)
            if isinstance(n, Arr):
                return VArrVal(n.elem, n.a, n.n)
            if isinstance(n, Dict):
                d = VDictVal(n.kkind, n.vkind, n.dom, n.val)
                d.idom, d.inner = n.idom, n.inner
                d.seq, d.nones = n.seq, n.nones
                return d
            # an object: only its identity is meaningful outside its own state
            o = VRef(v.nid)
            o.frozen = True
            return o
        if v.kind == 'tuple':
            return VTuple([self.freeze(st, x) for x in v.items], v.islist)
        if v.kind == 'opt':
            return VOpt(v.is_none, self.freeze(st, v.val))
        if v.kind == 'inner':
            n = st.node(v.ref)
            return VDictVal(n.inner[0], n.inner[1], n.idom[v.key], n.val[v.key])
        return v

    def length(self, st, v):
        if hasattr(v, 'sv_len'):
            return v.sv_len(self, st)
        if v.kind == 'opt':
            return self.length(st, v.val)
        if v.kind == 'tuple':
            return VInt(len(v.items))
        if v.kind == 'ref':
            n = st.node(v)
            if isinstance(n, Arr):
                return VInt(n.n)
            if isinstance(n, Dict) and n.seq is not None:
                return VInt(n.seq)
            if isinstance(n, Dict) and n.nkeys is not None:
                return VInt(n.nkeys)
        if v.kind == 'dictval' and getattr(v, 'seq', None) is not None:
            return VInt(v.seq)
        if v.kind == 'str':
            return VInt(smt.len_s(v.term))
        if v.kind in ('arrval', 'arrT'):
            return VInt(v.n)
        if v.kind == 'range':
            return VInt(z3.If(v.hi > v.lo, v.hi - v.lo, 0))
        raise EngineError('len() of %s' % v.kind)

    def quant(self, which, gen, st, bound):
        if not isinstance(gen, ast.GeneratorExp):
            raise EngineError('all/any needs a generator expression')
        bound = dict(bound)
        vars_, guards, pats = [], [], []
        for comp in gen.generators:
            it = comp.iter
            if not isinstance(comp.target, ast.Name):
                raise EngineError('quantifier target must be a name')
            nm = comp.target.id
            if isinstance(it, ast.Call) and isinstance(it.func, ast.Name) and it.func.id == 'range':
                k = fresh(nm, I)
                args = [to_int(self.sev(a, st, bound)) for a in it.args]
                lo, hi = (z3.IntVal(0), args[0]) if len(args) == 1 else (args[0], args[1])
                guards.append(z3.And(lo <= k, k < hi))
                bound[nm] = VInt(k)
                vars_.append(k)
            elif isinstance(it, ast.Call) and isinstance(it.func, ast.Name) and self.world is not None \
                    and it.func.id.rstrip('s') in getattr(self.world, 'extra_sorts', {}):
                kind = it.func.id.rstrip('s')
                k = fresh(nm, self.world.extra_sorts[kind][0])
                bound[nm] = self.world.extra_sorts[kind][1](k)
                vars_.append(k)
            elif isinstance(it, ast.Call) and isinstance(it.func, ast.Name) and it.func.id in ('ints', 'strs', 'reals'):
                srt = {'ints': I, 'strs': Str, 'reals': R}[it.func.id]
                k = fresh(nm, srt)
                bound[nm] = mk({'ints': 'int', 'strs': 'str', 'reals': 'real'}[it.func.id], k)
                vars_.append(k)
            else:
                cont = self.sev(it, st, bound)
                dd = self.as_dict(st, cont)
                if dd is not None:
                    k = fresh(nm, self.sort_of_kind(dd[0]))
                    guards.append(dd[2][k])
                    bound[nm] = self.wrap(dd[0], k)
                    vars_.append(k)
                elif cont.kind == 'tuple':
                    # finite expansion
                    parts = []
                    for item in cont.items:
                        b2 = dict(bound)
                        b2[nm] = item
                        g2 = ast.GeneratorExp(elt=gen.elt, generators=gen.generators[gen.generators.index(comp) + 1:]) \
                            if gen.generators.index(comp) + 1 < len(gen.generators) else None
                        conds = [self.sbool(c, st, b2) for c in comp.ifs]
                        body = self.truth(st, self.quant(which, g2, st, b2)) if g2 else self.sbool(gen.elt, st, b2)
                        parts.append(z3.Implies(z3.And(conds), body) if which == 'all' and conds else
                                     (z3.And(conds + [body]) if conds else body))
                    pre = z3.And(guards) if guards else z3.BoolVal(True)
                    inner = z3.And(parts) if which == 'all' else z3.Or(parts)
                    if vars_:
                        return VBool(z3.ForAll(vars_, z3.Implies(pre, inner)) if which == 'all'
                                     else z3.Exists(vars_, z3.And(pre, inner)))
                    return VBool(inner)
                else:
                    raise EngineError('quantifier over %s' % cont.kind)
            for c in comp.ifs:
                if isinstance(c, ast.Call) and isinstance(c.func, ast.Name) and c.func.id == 'trig':
                    # trig(t1, t2, ...): an explicit (multi-)pattern, not a guard
                    terms = [self.sev(a, st, bound).term for a in c.args]
                    pats.append(z3.MultiPattern(*terms) if len(terms) > 1 else terms[0])
                else:
                    guards.append(self.sbool(c, st, bound))
        body = self.sbool(gen.elt, st, bound)
        g = z3.And(guards) if guards else z3.BoolVal(True)
        kw = {'patterns': pats} if pats else {}
        if which == 'all':
            return VBool(z3.ForAll(vars_, z3.Implies(g, body), **kw))
        return VBool(z3.Exists(vars_, z3.And(g, body), **kw))


