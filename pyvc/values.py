"""Symbolic values, heap nodes and states of the symbolic executor."""
import itertools

import z3

from . import smt
from .smt import I, R, B, Str, Cls

_fresh = itertools.count()


def fresh(name, sort):
    return z3.Const('%s!%d' % (name, next(_fresh)), sort)


# ---- datatypes for dynamic values / closures / effects ------------------
# Fn is built per verified module (one constructor per lambda / named function),
# see engine.FnSpace.  Val and Eff are fixed.

class EngineError(Exception):
    """the code is outside the accepted subset, or the engine cannot type an
    expression: the check stops with exit 3 - never a silently skipped
    obligation"""


# ---- symbolic values -------------------------------------------------------

class SV:
    kind = '?'


class VInt(SV):
    kind = 'int'

    def __init__(self, term):
        self.term = term if z3.is_expr(term) else z3.IntVal(int(term))


class VReal(SV):
    kind = 'real'

    def __init__(self, term):
        if not z3.is_expr(term):
            term = z3.RealVal(repr(float(term)) if isinstance(term, float) else term)
        self.term = term


class VBool(SV):
    kind = 'bool'

    def __init__(self, term):
        self.term = term if z3.is_expr(term) else z3.BoolVal(bool(term))


class VStr(SV):
    kind = 'str'

    def __init__(self, term):
        self.term = term if z3.is_expr(term) else smt.str_lit(term)


class VNone(SV):
    kind = 'none'


NONE = VNone()


class VTuple(SV):
    kind = 'tuple'

    def __init__(self, items, islist=False):
        self.items = list(items)
        self.islist = islist


class VRef(SV):
    kind = 'ref'

    def __init__(self, nid):
        self.nid = nid


class VOpt(SV):
    """None or a value"""
    kind = 'opt'

    def __init__(self, is_none, val):
        self.is_none, self.val = is_none, val


class VCls(SV):
    kind = 'cls'

    def __init__(self, term, name=None):
        self.term = term if z3.is_expr(term) else smt.cls_const(term)
        self.name = name if name is not None else (term if isinstance(term, str) else None)


class VExc(SV):
    kind = 'exc'

    def __init__(self, cls, args=()):
        self.cls = cls          # VCls
        self.args = list(args)  # SVs


class VFn(SV):
    """callable: fk in closure | sym | callback | builtin | method | contract"""
    kind = 'fn'

    def __init__(self, fk, **kw):
        self.fk = fk
        self.__dict__.update(kw)


class VVal(SV):
    """dynamic value (term of sort Val)"""
    kind = 'val'

    def __init__(self, term):
        self.term = term


class VMod(SV):
    kind = 'mod'

    def __init__(self, name):
        self.name = name


class VRange(SV):
    kind = 'range'

    def __init__(self, lo, hi):
        self.lo, self.hi = lo, hi   # z3 Int terms


class VSlice(SV):
    kind = 'slice'

    def __init__(self, lo, hi):
        self.lo, self.hi = lo, hi   # z3 Int terms or None


class VInner(SV):
    """the inner dict stored (by value) under key `key` of the nested Dict
    node `ref`: reads go through the outer node, so they see later updates"""
    kind = 'inner'

    def __init__(self, ref, key):
        self.ref, self.key = ref, key


class VDictVal(SV):
    """a detached dict value (popped inner dict, dict literal, kwargs)"""
    kind = 'dictval'

    def __init__(self, kkind, vkind, dom, val, keys=None):
        self.kkind, self.vkind, self.dom, self.val = kkind, vkind, dom, val
        self.keys = keys      # python list of key SVs when built from a literal


# ---- heap nodes ---------------------------------------------------------------

SORTS = {'int': I, 'real': R, 'bool': B, 'str': Str, 'cls': Cls}


class Arr:
    """1-D numpy array / list / tuple of symbolic length: contents a: Int->elem, length n"""
    def __init__(self, elem, a, n, flavour='ndarray', width=None):
        self.elem, self.a, self.n, self.flavour = elem, a, n, flavour
        self.width = width       # numpy fixed-width string arrays ('U<n>'): z3 Int, None otherwise

    def replace(self, a=None, n=None):
        return Arr(self.elem, self.a if a is None else a, self.n if n is None else n, self.flavour, self.width)


class Dict:
    """dict with keys of sort ksort: dom: K->Bool, val: K->V.  When `inner`
    is set the values are themselves dicts held by value:
    val: K -> (K2 -> V2), idom: K -> (K2 -> Bool).
    Insertion order (only where iteration needs it): keys: Int->K, nkeys, pos: K->Int"""
    def __init__(self, kkind, vkind, dom, val, idom=None, inner=None, keys=None, nkeys=None, pos=None, seq=None):
        self.kkind, self.vkind, self.dom, self.val = kkind, vkind, dom, val
        self.idom, self.inner = idom, inner
        self.keys, self.nkeys, self.pos = keys, nkeys, pos
        # seq: the node stands for a *sequence* (tuple / list) of dicts held by value: keys are the positions
        # 0 .. seq-1 (z3 Int); None for an ordinary dict
        self.seq = seq
        self.nones = None      # for a sequence: z3 Array Int->Bool, position holds None (its dict is then empty)

    def replace(self, **kw):
        d = Dict(self.kkind, self.vkind, self.dom, self.val, self.idom, self.inner, self.keys, self.nkeys, self.pos, self.seq)
        d.__dict__.update(kw)
        return d


class Obj:
    def __init__(self, cls, fields):
        self.cls, self.fields = cls, dict(fields)

    def replace(self, **fields):
        f = dict(self.fields)
        f.update(fields)
        return Obj(self.cls, f)


class State:
    def __init__(self):
        self.env = {}
        self.heap = {}
        self.pc = []
        self.globals = {}
        self.old = None
        self.marks = {}      # named snapshots (loop entry)
        self.tags = {}       # index into pc -> tag (hypotheses that a loop contract may hide)

    def copy(self):
        s = State()
        s.env = dict(self.env)
        s.heap = dict(self.heap)
        s.pc = list(self.pc)
        s.globals = self.globals
        s.old = self.old
        s.marks = dict(self.marks)
        s.tags = dict(self.tags)
        return s

    def snapshot(self):
        s = self.copy()
        s.old = None
        return s

    def assume(self, *terms, tag=None):
        for t in terms:
            if tag is not None:
                self.tags[len(self.pc)] = tag
            self.pc.append(t)

    def alloc(self, node):
        nid = next(_fresh)
        self.heap[nid] = node
        return VRef(nid)

    def node(self, ref):
        return self.heap[ref.nid]

    def setnode(self, ref, node):
        self.heap[ref.nid] = node
